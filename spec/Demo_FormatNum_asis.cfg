SPECIFICATION Spec
CONSTANTS
  Dev <- DevAsIs
  Shapes <- BuiltinShapes
  MaxDigits = 12
  Fracs <- FracsAll
INVARIANT RoundTrip
CHECK_DEADLOCK FALSE
