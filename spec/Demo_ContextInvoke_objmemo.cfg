SPECIFICATION Spec
CONSTANTS
  Tier = "quick"
INVARIANT DemoObjMemo
CHECK_DEADLOCK FALSE
