--------------------------- MODULE Gen_SandboxReach ---------------------------
(* SandboxReach instantiated with the object graph extracted from the LIVE  *)
(* sandbox of the working tree (file named by env GRAPH_FILE, written by    *)
(* harness/c06.py on every run).  TLC computes the closure of what a module *)
(* holds, reports every forbidden reference in it with a shortest witness   *)
(* path (sequence of edge indices; the harness compiles it into a Lua probe *)
(* module and executes it for real), and validates the executed attack      *)
(* corpus against the model: an attack that really succeeded must be        *)
(* explained by a forbidden reference the model reaches (else the extractor *)
(* missed an edge: GAP).                                                    *)
EXTENDS SandboxReach, Json, IOUtils

Graph == JsonDeserialize(IOEnv.GRAPH_FILE)
L_Edges == Graph.edges
L_Init == Range(Graph.init)
L_ForbiddenRecs == Range(Graph.forbidden)          \* [n |-> node, c |-> class]
L_Forbidden == {f.n : f \in L_ForbiddenRecs}
Attacks == Range(Graph.attacks)                    \* [name, ok, needs]

ClassOf(n) == (CHOOSE f \in L_ForbiddenRecs : f.n = n).c
ReachedClasses == {f.c : f \in {g \in L_ForbiddenRecs : g.n \in held}}
Gaps == {a.name : a \in {b \in Attacks : b.ok /\ Range(b.needs) \cap ReachedClasses = {}}}
\* attacks that the model says are possible (some needed class reached) but that failed for real
Unconfirmed == {a.name : a \in {b \in Attacks : ~b.ok /\ Range(b.needs) \cap ReachedClasses # {}}}

Emit ==
  Saturated =>
    /\ \A f \in held \cap Forbidden :
         PrintT(<<"PATH", ToJson([target |-> f, cls |-> ClassOf(f), edges |-> PathTo(f)])>>)
    /\ PrintT(<<"REACH", ToJson([held |-> Cardinality(held), rounds |-> Len(layers) - 1,
                                 confined |-> Confined,
                                 classes |-> ReachedClasses, gaps |-> Gaps,
                                 unconfirmed |-> Unconfirmed])>>)
GenInv == Emit
=============================================================================
