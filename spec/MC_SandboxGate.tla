--------------------------- MODULE MC_SandboxGate ---------------------------
(* Design-level instance of SandboxGate: the Python objects a module can    *)
(* hold (written from luaexec.py), a few attribute names, and what getattr  *)
(* of the host objects would return if the gate let the lookup through.     *)
(*   helperA   functools.partial over the context (call_lua_sandbox)        *)
(*   helperB   functools.partial over the environment stack                 *)
(*             (set_lua_env_funcs)                                          *)
(*   modfn     module-level plain function (mw_text_decode)                 *)
(*   framefn   closure of make_frame: a new object for every #invoke        *)
(* Every history of at most MaxLen lookups, in every mode and at every      *)
(* boundary, is explored.                                                   *)
EXTENDS SandboxGate

O(i, k, s) == [id |-> i, kind |-> k, scope |-> s]
N(n, u) == [n |-> n, under |-> u]
F(o, n, c) == [o |-> o, n |-> n, cls |-> c]

D_Objs == {O("helperA", "partial", "runtime"), O("helperB", "partial", "runtime"),
           O("modfn", "pyfunc", "runtime"), O("framefn", "pyfunc", "invoke")}
D_Objs3 == {O("helperA", "partial", "runtime"), O("modfn", "pyfunc", "runtime"), O("framefn", "pyfunc", "invoke")}
D_Names == {N("args", FALSE), N("zz", FALSE), N("__globals__", TRUE)}
D_Facts == {F("helperA", "args", "tuple>py:Wtp"), F("helperB", "args", "tuple>py:deque"),
            F("modfn", "__globals__", "py:dict"), F("framefn", "__globals__", "py:dict")}
D_Writable == {"helperA", "helperB", "modfn", "framefn"}
D_Modes == {"get", "set"}
D_Bounds == {"same", "invoke"}
D_Bounds3 == {"same", "invoke", "page"}

DevIdeal == {}
DevMemoName == {"MemoByName"}
DevMemoObject == {"MemoByObject"}
DevMemoNameInv == {"MemoByName", "MemoPerInvocation"}
=============================================================================
