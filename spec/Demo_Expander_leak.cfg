SPECIFICATION Spec
CONSTANTS
  Universe = "C16Q"
  Known <- NoDev
  DepthLimit = 100
  PreBody <- ThePreBody
  LogEvents = FALSE
INVARIANT DemoLeak
CHECK_DEADLOCK FALSE
