SPECIFICATION SpecS
CONSTANTS
  Dev <- DevIdeal
  Known <- KnownBuiltin
  Names <- NamesBuiltin
  Sites <- SitesBuiltin
  NsFns <- NsFnsBuiltin
INVARIANT EverySiteCallEndsInBand
INVARIANT PartnersWellDefined
INVARIANT UnknownIsUnknown
CHECK_DEADLOCK FALSE
