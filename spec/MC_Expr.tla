----------------------------- MODULE MC_Expr -----------------------------
(* Bounded instances of Expr.                                               *)
(*  Tree families (variable x = one expression tree): every operator pair   *)
(*  in both association shapes, every unary/binary interaction, the prefix  *)
(*  chains that make minimal parenthesisation context dependent.            *)
(*  Soups (x = a token sequence that grows): every token sequence up to     *)
(*  MaxSoup over SoupAlphabet.                                               *)
EXTENDS Expr

CONSTANTS Lits, Lits2, UnOps, BinOps, Families, SoupAlphabet, MaxSoup

VARIABLE x

DevIdeal == {}
\* as-is behaviours of the unchanged tree
DevAsIs == {"NoExceptionBarrier", "UnaryAfterE", "TrailingTokensIgnored",
            "ModFollowsDivisor", "RoundPythonBuiltin", "EIntegerLoopUnbounded"}
DevBarrierOnly == {"NoExceptionBarrier", "EIntegerLoopUnbounded"}
DevUnaryAfterE == {"UnaryAfterE"}
DevTrailing == {"TrailingTokensIgnored"}

(* ---- operator and literal sets ---- *)
BinAll == {"e", "^", "*", "/", "div", "mod", "+", "-", "round",
           "=", "!=", "<>", "<", ">", "<=", ">=", "and", "or"}
BinLevels == {"e", "^", "*", "mod", "-", "round", "<", "and", "or"}   \* one or two per level
UnExact == {"-", "+", "not", "abs", "floor", "ceil", "trunc"}
UnAll == UnaryNames
UnFew == {"-", "not", "abs"}
LitsQ == {"0", "2", "3", "2.5"}
LitsT == {"0", "1", "2", "3", "0.5", "2.5"}
LitsZ == {"0", "2", "2.5"}
LitsTwo == {"2", "0.5"}
LitsThree == {"0", "3", "2.5"}
FamAll == {"pairs", "unbin", "tricky", "scale"}
FamTies == {"ties"}
FamTiesT == {"ties", "tiesT"}
FamTiesSpell == {"ties", "spell"}
FamTiesSpellT == {"ties", "tiesT", "spell", "spellT"}
FamSpell == {"spell"}
FamPairs == {"pairs"}
FamUn == {"unbin", "tricky"}
NoFam == {}

L(t) == <<"lit", t>>
Bin(o, a, b) == <<"bin", o, a, b>>
Un(u, a) == <<"un", u, a>>

\* families, by outermost operator `top` (an operator with a parameter: TLC
\* would otherwise enumerate every family at start-up)
Pairs(top) ==
  IF top \notin BinOps THEN {} ELSE
  {Bin(top, Bin(o2, L(a), L(b)), L(c)) : o2 \in BinOps, a \in Lits, b \in Lits, c \in Lits}
  \cup
  {Bin(top, L(a), Bin(o2, L(b), L(c))) : o2 \in BinOps, a \in Lits, b \in Lits, c \in Lits}

UnBin(top) ==
  IF top = "lit" THEN {L(a) : a \in Lits \cup {"e", "pi"}}
  ELSE
  (IF top \in UnOps THEN
     {Un(top, Bin(o, L(a), L(b))) : o \in BinOps, a \in Lits, b \in Lits}
     \cup {Un(top, Un(u2, L(a))) : u2 \in UnOps, a \in Lits}
     \cup {Un(top, L(a)) : a \in Lits}
   ELSE {})
  \cup
  (IF top \in BinOps THEN
     {Bin(top, Un(u, L(a)), L(b)) : u \in UnOps, a \in Lits, b \in Lits}
     \cup {Bin(top, L(a), Un(u, L(b))) : u \in UnOps, a \in Lits, b \in Lits}
     \cup {Bin(top, L(a), L(b)) : a \in Lits, b \in Lits}
   ELSE {})

Tricky(top) ==
  (IF top \in BinOps THEN
     {Bin(top, Bin(o2, L(a), Un(u, L(b))), L(c)) : o2 \in BinOps, u \in UnOps, a \in Lits2, b \in Lits2, c \in Lits2}
     \cup {Bin(top, Un(u1, Un(u2, L(a))), L(b)) : u1 \in UnOps, u2 \in UnOps, a \in Lits2, b \in Lits2}
     \cup {Bin(top, L(a), Un(u1, Un(u2, L(b)))) : u1 \in UnOps, u2 \in UnOps, a \in Lits2, b \in Lits2}
   ELSE {})
  \cup
  (IF top \in UnOps THEN
     {Un(top, Bin(o, L(a), Un(u2, L(b)))) : o \in BinOps, u2 \in UnOps, a \in Lits2, b \in Lits2}
   ELSE {})

\* x e y with integer mantissas that end in zeros and small exponents of either sign (the integer path of
\* the e operator strips / appends zeros), bare, under a product and inside a sum
ScaleM == {"10", "400", "5000", "12", "2.5"}
ScaleK == {"1", "2", "3", "4"}
ScaleE == {Bin("e", L(m), Un("-", L(k))) : m \in ScaleM, k \in ScaleK}
          \cup {Bin("e", L(m), L(k)) : m \in ScaleM, k \in ScaleK}
          \cup {Bin("e", Bin("*", L("2"), L(m)), Un("-", L(k))) : m \in ScaleM, k \in ScaleK}
Scale(top) ==
  IF top = "e" THEN ScaleE
  ELSE IF top = "+" THEN {Bin("+", L("3"), Bin("*", t, L("4"))) : t \in ScaleE}
  ELSE {}

(* ---- `round` on the number as written (family "ties"; "tiesT" widens it) ----            *)
(* Left operands of round: decimal numerals that sit exactly on a rounding tie for 1, 2 or 3   *)
(* digits and have no exact binary representation (the double lies below the tie for some,     *)
(* above it for others), ties that are exact in binary, near-ties, integers (ties for negative *)
(* digit counts); each as a numeral, negated, as the quotient of two exact numbers and scaled   *)
(* by a power of two -- the ways a value reaches round with the code still holding the double   *)
(* nearest to the written number (Expr!Near).  Digit counts 0..3, negative, fractional.         *)
Wide == "tiesT" \in Families
TieNums == {"0.15", "1.45", "0.45", "0.285", "1.005", "2.675", "0.995", "0.005", "0.1235", "0.0015",
            "0.125", "0.0625", "2.5", "2.674"}
           \cup (IF Wide THEN {"0.35", "2.55", "0.075", "1.0005", "1.445", "0.375", "0.25", "0.75", "1.25",
                               "1.5", "0.5", "2.676", "1.0049"} ELSE {})
TieInts == {"5", "25", "250"} \cup (IF Wide THEN {"15", "400", "5000", "12", "3"} ELSE {})
TieDigits == {L("0"), L("1"), L("2"), L("3"), Un("-", L("1")), Un("-", L("2")), L("1.5"), L("2.5")}
             \cup (IF Wide THEN {L("4"), L("10"), Un("-", L("3")), L("0.5"), Un("-", L("0.5")), Un("-", L("4"))} ELSE {})
TieFracPairs == {<<"3", "400">>, <<"1", "400">>, <<"9", "400">>, <<"0.75", "10">>, <<"1.5", "10">>,
                 <<"201", "200">>, <<"107", "40">>, <<"57", "200">>}
                \cup (IF Wide THEN {"1", "3", "7", "9", "1.5", "0.75", "3.5", "0.25"} \X {"10", "40", "200", "400"} ELSE {})
TieFracs == {Bin("/", L(p[1]), L(p[2])) : p \in TieFracPairs}
            \cup (IF Wide THEN {Bin("div", L(p[1]), L(p[2])) : p \in TieFracPairs} ELSE {})
TieScaled == {Bin("/", L(t), L("2")) : t \in TieNums} \cup {Bin("*", L(t), L("2")) : t \in TieNums}
             \cup (IF Wide THEN {Bin("*", L("0.5"), L(t)) : t \in TieNums} \cup {Bin("/", L(t), L("0.25")) : t \in TieNums}
                                \cup {Bin("*", L("4"), Un("-", L(t))) : t \in TieNums}
                   ELSE {})
TieLeft == {L(t) : t \in TieNums \cup TieInts} \cup {Un("-", L(t)) : t \in TieNums \cup TieInts}
           \cup TieFracs \cup {Un("-", f) : f \in TieFracs} \cup TieScaled
           \cup (IF Wide THEN {Un("abs", Un("-", L(t))) : t \in TieNums} \cup {Un("+", L(t)) : t \in TieNums} ELSE {})
TieRounds == {Bin("round", l, k) : l \in TieLeft, k \in TieDigits}
\* a rounding whose result is used: rounded again, compared with a written numeral
\* (what #ifexpr does), scaled, negated, inside a sum
TieK == {L("1"), L("2"), L("3")}
TieInner == {Bin("round", L(t), k) : t \in TieNums, k \in TieK}
TieCmpNums == {"0.29", "0.28", "1.01", "1", "2.68", "2.67", "0.2", "0.1", "1.5", "2.7"}
Ties(top) ==
  CASE top = "round" -> TieRounds \cup {Bin("round", r, k) : r \in TieInner, k \in {L("0"), L("1"), L("2")}}
    [] top \in {"=", "<"} \cup (IF Wide THEN {">=", "!=", "<>", ">", "<="} ELSE {}) ->
         {Bin(top, r, L(c)) : r \in TieInner, c \in TieCmpNums}
         \cup (IF Wide THEN {Bin(top, L(c), r) : r \in TieInner, c \in TieCmpNums} ELSE {})
    [] top = "*" -> {Bin("*", r, L("100")) : r \in TieInner}
    [] top = "+" -> {Bin("+", L("1"), r) : r \in TieInner}
    [] top = "-" -> {Un("-", r) : r \in TieInner}
    [] OTHER -> {}

\* what kind of roundings a tree contains (reported with every generated case)
RECURSIVE TieKinds(_)
TieKinds(a) ==
  CASE a[1] = "lit" -> {}
    [] a[1] = "un" -> TieKinds(a[3])
    [] a[1] = "bin" ->
         TieKinds(a[3]) \cup TieKinds(a[4]) \cup
         (IF a[2] # "round" THEN {}
          ELSE LET v == Fold(a[3])
                   kv == Fold(a[4]) IN
               IF v.kind # "val" \/ kv.kind # "val" \/ ~v.ex \/ ~kv.ex THEN {"round-inexact"}
               ELSE LET k == TruncI(kv.n, kv.d) IN
                    IF k > 4 \/ k < -4 THEN {"round-far"}
                    ELSE IF ~(IF k >= 0 THEN IsTie(v.n * Pow10(k), v.d) ELSE IsTie(v.n, v.d * Pow10(-k))) THEN {"round-no-tie"}
                    ELSE IF v.fx THEN {"round-tie-exact-in-binary"}
                    ELSE IF v.nr THEN {"round-tie-decimal-only"}
                    ELSE {"round-tie-undecided"})

(* ---- numeral SPELLINGS of one value (family "spell"; "spellT" widens it) ----                 *)
(* The same number written with leading zeros, with a fraction of zeros, with a bare trailing or   *)
(* leading point (Expr!SpellChars), bare, signed, and as the operand of operators that keep or     *)
(* combine the value: what a count looks like when it comes out of padleft, #time, a template      *)
(* argument, a table cell.  The value of every such expression is that of its canonical spelling; *)
(* what plural / #ifexpr select is decided by the value, not by the spelling.                      *)
SpellWide == "spellT" \in Families
SpellGroupsQ ==      \* canonical numeral :> its other spellings
  ("0" :> {"00", "0.0", "0.", ".0"}) @@
  ("1" :> {"01", "001", "1.0", "1.00", "01.0", "1."}) @@
  ("2" :> {"02", "2.0"}) @@
  ("10" :> {"010", "10.0"}) @@
  ("1.5" :> {"01.5", "1.50"}) @@
  ("0.5" :> {"00.5", ".50", ".5"})
SpellGroupsT ==
  ("0" :> {"00", "000", "0.0", "0.", ".0", "00.00"}) @@
  ("1" :> {"01", "001", "0001", "1.0", "1.00", "01.0", "1.", "01.", "001.000"}) @@
  ("2" :> {"02", "002", "2.0", "02.00", "2."}) @@
  ("10" :> {"010", "0010", "10.0", "10."}) @@
  ("1.5" :> {"01.5", "1.50", "001.500"}) @@
  ("0.5" :> {"00.5", "0.50", ".50", ".5"}) @@
  ("11" :> {"011", "11.0"}) @@ ("21" :> {"021"}) @@ ("101" :> {"0101"}) @@ ("100" :> {"0100", "100.0"}) @@
  ("0.1" :> {"0.10", "00.1", ".1"}) @@ ("1.1" :> {"1.10", "01.1"})
SpellGroups == IF SpellWide THEN SpellGroupsT ELSE SpellGroupsQ
SpellCanon == DOMAIN SpellGroups
SpellNums == SpellCanon \cup UNION {SpellGroups[c] : c \in SpellCanon}
SpellOnes == {"1"} \cup SpellGroups["1"]
SpellZeros == {"0"} \cup SpellGroups["0"]
SpellSome == {"1", "01", "1.0", "02", "2", "0", "00"}
Spells(top) ==
  CASE top = "lit" -> {L(t) : t \in SpellNums}
    [] top = "+" -> {Un("+", L(t)) : t \in SpellNums} \cup {Bin("+", L(t), L(z)) : t \in SpellNums, z \in {"0", "00", "0.0"}}
                    \cup {Bin("+", L(z), L(t)) : t \in SpellNums, z \in {"00", "1", "01"}}
                    \cup (IF SpellWide THEN {Un("+", Un("+", L(t))) : t \in SpellNums} ELSE {})
    [] top = "-" -> {Un("-", L(t)) : t \in SpellNums} \cup {Un("-", Un("-", L(t))) : t \in SpellNums}
                    \cup {Bin("-", L(u), L(t)) : t \in SpellNums, u \in {"2", "02", "3"}}
                    \cup {Bin("-", L(t), L(u)) : t \in SpellNums, u \in {"1", "01", "0", "00"}}
    [] top = "*" -> {Bin("*", L(t), L(u)) : t \in SpellNums, u \in SpellOnes}
                    \cup {Bin("*", L(u), L(t)) : t \in SpellNums, u \in {"01", "1.0", "0.5", "00.5"}}
    [] top \in {"/", "div"} -> {Bin(top, L(t), L(u)) : t \in SpellNums, u \in {"1", "01", "2", "02"} \cup (IF SpellWide THEN {"1.0", "010"} ELSE {})}
                    \cup {Bin(top, L(u), L(t)) : t \in SpellNums, u \in {"02", "010"}}
    [] top = "e" -> {Bin("e", L(t), L(z)) : t \in SpellNums, z \in {"0", "00", "01"}}
                    \cup {Bin("e", L(t), Un("-", L(z))) : t \in SpellNums, z \in {"0", "00", "01"}}
                    \cup {Bin("e", L(u), L(t)) : t \in {"0", "00", "1", "01", "001", "02"}, u \in SpellSome}
    [] top = "^" -> {Bin("^", L(t), L(u)) : t \in SpellNums, u \in {"1", "01", "0", "00", "02"}}
                    \cup {Bin("^", L(u), L(t)) : t \in SpellNums, u \in {"01", "02"}}
    [] top = "mod" -> {Bin("mod", L(t), L(u)) : t \in SpellNums, u \in {"010", "02", "2"}}
                    \cup {Bin("mod", L(u), L(t)) : t \in SpellNums, u \in {"011" , "3"}}
    [] top = "round" -> {Bin("round", L(t), L(z)) : t \in SpellNums, z \in {"0", "00", "01", "1.0"}}
    [] top \in CmpOps -> {Bin(top, L(t), L(u)) : t \in SpellNums,
                                                  u \in (IF SpellWide /\ top \in {"=", "<"} THEN SpellNums
                                                         ELSE IF SpellWide \/ top \in {"=", "<"} THEN SpellSome ELSE {"1", "01", "00"})}
    [] top \in {"and", "or"} -> {Bin(top, L(t), L(u)) : t \in SpellNums, u \in (IF SpellWide THEN SpellSome ELSE {"01", "0", "00"})}
    [] top \in {"not", "abs", "floor", "ceil", "trunc"} -> {Un(top, L(t)) : t \in SpellNums} \cup {Un(top, Un("-", L(t))) : t \in SpellNums}
    [] OTHER -> {}
TopOf(a) == IF a[1] = "lit" THEN "lit" ELSE a[2]
IsSpellTree(a) == "spell" \in Families /\ a \in Spells(TopOf(a))

\* the ways the numerals of a tree are spelled (reported with every generated case)
RECURSIVE SpellKinds(_)
SpellKinds(a) ==
  CASE a[1] = "lit" -> (IF a[2] \in DOMAIN SpellChars THEN NumeralSpelling(SpellChars[a[2]])
                       ELSE IF a[2] \in DOMAIN LitTable THEN NumeralSpelling(CharsOf[a[2]]) ELSE {})
    [] a[1] = "un" -> SpellKinds(a[3])
    [] a[1] = "bin" -> SpellKinds(a[3]) \cup SpellKinds(a[4])

\* M (C18, numerals): every spelling is ONE lexeme of the tokeniser, the spellings of a group denote the
\* number of their canonical numeral (positional notation), and -- the statement for this family --
\* a tree has the value of the tree with every numeral replaced by its canonical spelling
CanonOf(t) == IF \E c \in SpellCanon : t \in SpellGroups[c] THEN CHOOSE c \in SpellCanon : t \in SpellGroups[c] ELSE t
RECURSIVE Canonical(_)
Canonical(a) ==
  CASE a[1] = "lit" -> L(CanonOf(a[2]))
    [] a[1] = "un" -> Un(a[2], Canonical(a[3]))
    [] a[1] = "bin" -> Bin(a[2], Canonical(a[3]), Canonical(a[4]))
CharsOfNumeral(t) == IF t \in DOMAIN SpellChars THEN SpellChars[t] ELSE CharsOf[t]
SpellingsDenoteTheirNumber ==
  (x = <<"root">> /\ "spell" \in Families) =>
    /\ \A t \in DOMAIN SpellChars : Tokenize(SpellChars[t]) = <<SpellChars[t]>> /\ AllLits[t] = NumeralValue(SpellChars[t])
    /\ \A t \in DOMAIN LitTable : NumeralValue(CharsOf[t]) = LitTable[t]
    /\ \A c \in SpellCanon : /\ NumeralSpelling(CharsOfNumeral(c)) = {}
                              /\ \A t \in SpellGroups[c] : /\ AllLits[t] = AllLits[c]
                                                            /\ NumeralSpelling(CharsOfNumeral(t)) # {}
Trees(top) == (IF "spell" \in Families THEN Spells(top) ELSE {}) \cup (IF "scale" \in Families THEN Scale(top) ELSE {}) \cup (IF "ties" \in Families THEN Ties(top) ELSE {}) \cup (IF "pairs" \in Families THEN Pairs(top) ELSE {})
              \cup (IF "unbin" \in Families THEN UnBin(top) ELSE {})
              \cup (IF "tricky" \in Families THEN Tricky(top) ELSE {})

\* The trees are spread over one sub-tree of the state graph per top-level
\* operator so that TLC's workers evaluate them in parallel:
\*   <<"root">>  ->  <<"top", o>>  ->  every tree of the families whose
\*   outermost operator is o   (literals hang below the pseudo operator "lit")
Tops == BinOps \cup UnOps \cup {"lit"}
IsTree == x[1] \in {"lit", "un", "bin"}
TreeInit == x = <<"root">>
TreeNext == \/ x[1] = "root" /\ \E o \in Tops : x' = <<"top", o>>
            \/ x[1] = "top" /\ x' \in Trees(x[2])
TreeSpec == TreeInit /\ [][TreeNext]_x

\* M (C18): the ladder and the documented operator-precedence evaluation both
\* compute the value of the tree from either rendering
Same(a, b) == a.kind = b.kind /\ (a.kind = "val" => a = b)
LadderComputesFold ==
  IsTree =>
  LET f == Fold(x) IN
  /\ Same(ExprOutcome(RenderMin(x)), f)
  /\ Same(ExprOutcome(RenderFull(x)), f)
ReferenceComputesFold ==
  IsTree =>
  LET f == Fold(x) IN
  /\ Same(MWOutcome(RenderMin(x)), f)
  /\ Same(MWOutcome(RenderFull(x)), f)

ValueIndependentOfSpelling ==
  (IsTree /\ IsSpellTree(x)) =>
    LET f == Fold(x) g == Fold(Canonical(x)) IN
    /\ Same(Proj(f), Proj(g))
    /\ (f.kind = "val" => Truth(f) = Truth(g) /\ Cmp3(f, One) = Cmp3(g, One))

\* M (C18, declarative reference for round): when the code holds the number as written
\* (Near) the value of `v round k` is the multiple of 10^-k nearest to v, and of the two
\* nearest ones at a tie the one away from zero
RoundIsNearestAwayFromZero ==
  (IsTree /\ x[1] = "bin" /\ x[2] = "round") =>
    LET v == Fold(x[3])
        kv == Fold(x[4])
        f == Fold(x) IN
    (v.kind = "val" /\ kv.kind = "val" /\ Near(v) /\ Near(kv) /\ TruncI(kv.n, kv.d) \in -4..3) =>
      LET k == TruncI(kv.n, kv.d)
          s == IF k >= 0 THEN Pow10(k) ELSE 1         \* f * s is an integer ...
          u == IF k >= 0 THEN 1 ELSE Pow10(-k)         \* ... that is a multiple of u
          diff == AbsI(f.n * v.d - v.n * f.d)          \* |f - v| = diff / (f.d * v.d)
      IN /\ f.kind = "val" /\ f.ex
         /\ (f.n * s) % f.d = 0 /\ ((f.n * s) \div f.d) % u = 0
         /\ 2 * s * diff <= u * f.d * v.d
         /\ (2 * s * diff = u * f.d * v.d) => AbsI(f.n) * v.d > AbsI(v.n) * f.d

(* ---- token soups ---- *)
SoupQ == {"0", "1", "2.5", "400", "HUGE", "TINY", "+", "-", "*", "/", "^", "e", "mod", "round",
          "=", "<", "and", "not", "(", ")", "ln", "exp", "acos", "trunc", "foo", "inf"}
SoupT == SoupQ \cup {"5000", "sqrt", "or", "nan", ".", "div"}
SoupSmall == {"0", "1", "2.5", "+", "-", "*", "/", "^", "e", "mod", "round", "=", "and", "or",
              "not", "abs", "(", ")", "foo"}

SoupInit == x = <<>>
SoupNext == Len(x) < MaxSoup /\ \E t \in SoupAlphabet : x' = Append(x, t)
SoupSpec == SoupInit /\ [][SoupNext]_x

(* ---- tokeniser: x = <<t1, t2>> over the vocabulary ---- *)
TokInit == x = <<>>
TokNext == x = <<>> /\ \E a \in Vocabulary, b \in Vocabulary : x' = <<a, b>>
TokSpec == TokInit /\ [][TokNext]_x
Blanks == {<<" ">>, <<" ", " ">>, <<"\n", " ">>, <<" ", "\t">>}
\* M (C18, spacing and letter case): two lexemes separated by any blanks -- or by
\* none unless NeedSpace says they would merge -- in lower or upper case, come
\* back from the tokeniser as themselves; and a single lexeme is one token
TokenizerRespectsSpacingAndCase ==
  Len(x) = 2 =>
    LET a == CharsOf[x[1]] b == CharsOf[x[2]] IN
    /\ Tokenize(a) = <<a>>
    /\ \A sp \in Blanks \cup (IF NeedSpace(x[1], x[2]) THEN {} ELSE {<<>>}) :
         /\ Tokenize(a \o sp \o b) = <<a, b>>
         /\ Tokenize(ToUpper(a) \o sp \o ToUpper(b)) = <<a, b>>
         /\ Tokenize(<<" ">> \o a \o sp \o b \o <<"\n">>) = <<a, b>>
\* ...and NeedSpace is not over-cautious: without the blank they do merge
NeedSpaceIsNecessary ==
  (Len(x) = 2 /\ NeedSpace(x[1], x[2])) => Tokenize(CharsOf[x[1]] \o CharsOf[x[2]]) # <<CharsOf[x[1]], CharsOf[x[2]]>>

\* M (C05b): every evaluation of the model ends in a value or an in-band error
Total == /\ ExprOutcome(x).kind \in {"val", "err"}
         /\ MWOutcome(x).kind \in {"val", "err"}
\* the ladder accepts exactly the documented language and computes the same
LadderMatchesReference == Same(ExprOutcome(x), MWOutcome(x))
=============================================================================
