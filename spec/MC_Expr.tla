----------------------------- MODULE MC_Expr -----------------------------
(* Bounded instances of Expr.                                               *)
(*  Tree families (variable x = one expression tree): every operator pair   *)
(*  in both association shapes, every unary/binary interaction, the prefix  *)
(*  chains that make minimal parenthesisation context dependent.            *)
(*  Soups (x = a token sequence that grows): every token sequence up to     *)
(*  MaxSoup over SoupAlphabet.                                               *)
EXTENDS Expr

CONSTANTS Lits, Lits2, UnOps, BinOps, Families, SoupAlphabet, MaxSoup

VARIABLE x

DevIdeal == {}
\* as-is behaviours of the unchanged tree
DevAsIs == {"NoExceptionBarrier", "UnaryAfterE", "TrailingTokensIgnored",
            "ModFollowsDivisor", "RoundPythonBuiltin", "EIntegerLoopUnbounded"}
DevBarrierOnly == {"NoExceptionBarrier", "EIntegerLoopUnbounded"}
DevUnaryAfterE == {"UnaryAfterE"}
DevTrailing == {"TrailingTokensIgnored"}

(* ---- operator and literal sets ---- *)
BinAll == {"e", "^", "*", "/", "div", "mod", "+", "-", "round",
           "=", "!=", "<>", "<", ">", "<=", ">=", "and", "or"}
BinLevels == {"e", "^", "*", "mod", "-", "round", "<", "and", "or"}   \* one or two per level
UnExact == {"-", "+", "not", "abs", "floor", "ceil", "trunc"}
UnAll == UnaryNames
UnFew == {"-", "not", "abs"}
LitsQ == {"0", "2", "3", "2.5"}
LitsT == {"0", "1", "2", "3", "0.5", "2.5"}
LitsZ == {"0", "2", "2.5"}
LitsTwo == {"2", "0.5"}
LitsThree == {"0", "3", "2.5"}
FamAll == {"pairs", "unbin", "tricky", "scale"}
FamPairs == {"pairs"}
FamUn == {"unbin", "tricky"}
NoFam == {}

L(t) == <<"lit", t>>
Bin(o, a, b) == <<"bin", o, a, b>>
Un(u, a) == <<"un", u, a>>

\* families, by outermost operator `top` (an operator with a parameter: TLC
\* would otherwise enumerate every family at start-up)
Pairs(top) ==
  IF top \notin BinOps THEN {} ELSE
  {Bin(top, Bin(o2, L(a), L(b)), L(c)) : o2 \in BinOps, a \in Lits, b \in Lits, c \in Lits}
  \cup
  {Bin(top, L(a), Bin(o2, L(b), L(c))) : o2 \in BinOps, a \in Lits, b \in Lits, c \in Lits}

UnBin(top) ==
  IF top = "lit" THEN {L(a) : a \in Lits \cup {"e", "pi"}}
  ELSE
  (IF top \in UnOps THEN
     {Un(top, Bin(o, L(a), L(b))) : o \in BinOps, a \in Lits, b \in Lits}
     \cup {Un(top, Un(u2, L(a))) : u2 \in UnOps, a \in Lits}
     \cup {Un(top, L(a)) : a \in Lits}
   ELSE {})
  \cup
  (IF top \in BinOps THEN
     {Bin(top, Un(u, L(a)), L(b)) : u \in UnOps, a \in Lits, b \in Lits}
     \cup {Bin(top, L(a), Un(u, L(b))) : u \in UnOps, a \in Lits, b \in Lits}
     \cup {Bin(top, L(a), L(b)) : a \in Lits, b \in Lits}
   ELSE {})

Tricky(top) ==
  (IF top \in BinOps THEN
     {Bin(top, Bin(o2, L(a), Un(u, L(b))), L(c)) : o2 \in BinOps, u \in UnOps, a \in Lits2, b \in Lits2, c \in Lits2}
     \cup {Bin(top, Un(u1, Un(u2, L(a))), L(b)) : u1 \in UnOps, u2 \in UnOps, a \in Lits2, b \in Lits2}
     \cup {Bin(top, L(a), Un(u1, Un(u2, L(b)))) : u1 \in UnOps, u2 \in UnOps, a \in Lits2, b \in Lits2}
   ELSE {})
  \cup
  (IF top \in UnOps THEN
     {Un(top, Bin(o, L(a), Un(u2, L(b)))) : o \in BinOps, u2 \in UnOps, a \in Lits2, b \in Lits2}
   ELSE {})

\* x e y with integer mantissas that end in zeros and small exponents of either sign (the integer path of
\* the e operator strips / appends zeros), bare, under a product and inside a sum
ScaleM == {"10", "400", "5000", "12", "2.5"}
ScaleK == {"1", "2", "3", "4"}
ScaleE == {Bin("e", L(m), Un("-", L(k))) : m \in ScaleM, k \in ScaleK}
          \cup {Bin("e", L(m), L(k)) : m \in ScaleM, k \in ScaleK}
          \cup {Bin("e", Bin("*", L("2"), L(m)), Un("-", L(k))) : m \in ScaleM, k \in ScaleK}
Scale(top) ==
  IF top = "e" THEN ScaleE
  ELSE IF top = "+" THEN {Bin("+", L("3"), Bin("*", t, L("4"))) : t \in ScaleE}
  ELSE {}

Trees(top) == (IF "scale" \in Families THEN Scale(top) ELSE {}) \cup (IF "pairs" \in Families THEN Pairs(top) ELSE {})
              \cup (IF "unbin" \in Families THEN UnBin(top) ELSE {})
              \cup (IF "tricky" \in Families THEN Tricky(top) ELSE {})

\* The trees are spread over one sub-tree of the state graph per top-level
\* operator so that TLC's workers evaluate them in parallel:
\*   <<"root">>  ->  <<"top", o>>  ->  every tree of the families whose
\*   outermost operator is o   (literals hang below the pseudo operator "lit")
Tops == BinOps \cup UnOps \cup {"lit"}
IsTree == x[1] \in {"lit", "un", "bin"}
TreeInit == x = <<"root">>
TreeNext == \/ x[1] = "root" /\ \E o \in Tops : x' = <<"top", o>>
            \/ x[1] = "top" /\ x' \in Trees(x[2])
TreeSpec == TreeInit /\ [][TreeNext]_x

\* M (C18): the ladder and the documented operator-precedence evaluation both
\* compute the value of the tree from either rendering
Same(a, b) == a.kind = b.kind /\ (a.kind = "val" => a = b)
LadderComputesFold ==
  IsTree =>
  LET f == Fold(x) IN
  /\ Same(ExprOutcome(RenderMin(x)), f)
  /\ Same(ExprOutcome(RenderFull(x)), f)
ReferenceComputesFold ==
  IsTree =>
  LET f == Fold(x) IN
  /\ Same(MWOutcome(RenderMin(x)), f)
  /\ Same(MWOutcome(RenderFull(x)), f)

(* ---- token soups ---- *)
SoupQ == {"0", "1", "2.5", "400", "HUGE", "TINY", "+", "-", "*", "/", "^", "e", "mod", "round",
          "=", "<", "and", "not", "(", ")", "ln", "exp", "acos", "trunc", "foo", "inf"}
SoupT == SoupQ \cup {"5000", "sqrt", "or", "nan", ".", "div"}
SoupSmall == {"0", "1", "2.5", "+", "-", "*", "/", "^", "e", "mod", "round", "=", "and", "or",
              "not", "abs", "(", ")", "foo"}

SoupInit == x = <<>>
SoupNext == Len(x) < MaxSoup /\ \E t \in SoupAlphabet : x' = Append(x, t)
SoupSpec == SoupInit /\ [][SoupNext]_x

(* ---- tokeniser: x = <<t1, t2>> over the vocabulary ---- *)
TokInit == x = <<>>
TokNext == x = <<>> /\ \E a \in Vocabulary, b \in Vocabulary : x' = <<a, b>>
TokSpec == TokInit /\ [][TokNext]_x
Blanks == {<<" ">>, <<" ", " ">>, <<"\n", " ">>, <<" ", "\t">>}
\* M (C18, spacing and letter case): two lexemes separated by any blanks -- or by
\* none unless NeedSpace says they would merge -- in lower or upper case, come
\* back from the tokeniser as themselves; and a single lexeme is one token
TokenizerRespectsSpacingAndCase ==
  Len(x) = 2 =>
    LET a == CharsOf[x[1]] b == CharsOf[x[2]] IN
    /\ Tokenize(a) = <<a>>
    /\ \A sp \in Blanks \cup (IF NeedSpace(x[1], x[2]) THEN {} ELSE {<<>>}) :
         /\ Tokenize(a \o sp \o b) = <<a, b>>
         /\ Tokenize(ToUpper(a) \o sp \o ToUpper(b)) = <<a, b>>
         /\ Tokenize(<<" ">> \o a \o sp \o b \o <<"\n">>) = <<a, b>>
\* ...and NeedSpace is not over-cautious: without the blank they do merge
NeedSpaceIsNecessary ==
  (Len(x) = 2 /\ NeedSpace(x[1], x[2])) => Tokenize(CharsOf[x[1]] \o CharsOf[x[2]]) # <<CharsOf[x[1]], CharsOf[x[2]]>>

\* M (C05b): every evaluation of the model ends in a value or an in-band error
Total == /\ ExprOutcome(x).kind \in {"val", "err"}
         /\ MWOutcome(x).kind \in {"val", "err"}
\* the ladder accepts exactly the documented language and computes the same
LadderMatchesReference == Same(ExprOutcome(x), MWOutcome(x))
=============================================================================
