----------------------------- MODULE MC_Expr -----------------------------
(* Bounded instances of Expr.                                               *)
(*  Tree families (variable x = one expression tree): every operator pair   *)
(*  in both association shapes, every unary/binary interaction, the prefix  *)
(*  chains that make minimal parenthesisation context dependent.            *)
(*  Soups (x = a token sequence that grows): every token sequence up to     *)
(*  MaxSoup over SoupAlphabet.                                               *)
EXTENDS Expr

CONSTANTS Lits, Lits2, UnOps, BinOps, Families, SoupAlphabet, MaxSoup

VARIABLE x

DevIdeal == {}
\* as-is behaviours of the unchanged tree
DevAsIs == {"NoExceptionBarrier", "UnaryAfterE", "TrailingTokensIgnored",
            "ModFollowsDivisor", "RoundPythonBuiltin"}
DevBarrierOnly == {"NoExceptionBarrier"}
DevUnaryAfterE == {"UnaryAfterE"}
DevTrailing == {"TrailingTokensIgnored"}

(* ---- operator and literal sets ---- *)
BinAll == {"e", "^", "*", "/", "div", "mod", "+", "-", "round",
           "=", "!=", "<>", "<", ">", "<=", ">=", "and", "or"}
BinLevels == {"e", "^", "*", "mod", "-", "round", "<", "and", "or"}   \* one or two per level
UnExact == {"-", "+", "not", "abs", "floor", "ceil", "trunc"}
UnAll == UnaryNames
UnFew == {"-", "not", "abs"}
LitsQ == {"0", "2", "3", "2.5"}
LitsT == {"0", "1", "2", "3", "0.5", "2.5"}
LitsZ == {"0", "2", "2.5"}
LitsTwo == {"2", "0.5"}
LitsThree == {"0", "3", "2.5"}
FamAll == {"pairs", "unbin", "tricky"}
FamPairs == {"pairs"}
FamUn == {"unbin", "tricky"}
NoFam == {}

L(t) == <<"lit", t>>
Bin(o, a, b) == <<"bin", o, a, b>>
Un(u, a) == <<"un", u, a>>

Pairs ==
  {Bin(o1, Bin(o2, L(a), L(b)), L(c)) : o1 \in BinOps, o2 \in BinOps, a \in Lits, b \in Lits, c \in Lits}
  \cup
  {Bin(o1, L(a), Bin(o2, L(b), L(c))) : o1 \in BinOps, o2 \in BinOps, a \in Lits, b \in Lits, c \in Lits}

UnBin ==
  {Un(u, Bin(o, L(a), L(b))) : u \in UnOps, o \in BinOps, a \in Lits, b \in Lits}
  \cup {Bin(o, Un(u, L(a)), L(b)) : u \in UnOps, o \in BinOps, a \in Lits, b \in Lits}
  \cup {Bin(o, L(a), Un(u, L(b))) : u \in UnOps, o \in BinOps, a \in Lits, b \in Lits}
  \cup {Un(u1, Un(u2, L(a))) : u1 \in UnOps, u2 \in UnOps, a \in Lits}
  \cup {Un(u, L(a)) : u \in UnOps, a \in Lits}
  \cup {Bin(o, L(a), L(b)) : o \in BinOps, a \in Lits, b \in Lits}
  \cup {L(a) : a \in Lits \cup {"e", "pi"}}

Tricky ==
  {Bin(o1, Bin(o2, L(a), Un(u, L(b))), L(c)) : o1 \in BinOps, o2 \in BinOps, u \in UnOps, a \in Lits2, b \in Lits2, c \in Lits2}
  \cup {Bin(o, Un(u1, Un(u2, L(a))), L(b)) : o \in BinOps, u1 \in UnOps, u2 \in UnOps, a \in Lits2, b \in Lits2}
  \cup {Un(u1, Bin(o, L(a), Un(u2, L(b)))) : o \in BinOps, u1 \in UnOps, u2 \in UnOps, a \in Lits2, b \in Lits2}
  \cup {Bin(o, L(a), Un(u1, Un(u2, L(b)))) : o \in BinOps, u1 \in UnOps, u2 \in UnOps, a \in Lits2, b \in Lits2}

Trees == (IF "pairs" \in Families THEN Pairs ELSE {})
         \cup (IF "unbin" \in Families THEN UnBin ELSE {})
         \cup (IF "tricky" \in Families THEN Tricky ELSE {})

TreeInit == x \in Trees
TreeNext == UNCHANGED x
TreeSpec == TreeInit /\ [][TreeNext]_x

\* M (C18): the ladder and the documented operator-precedence evaluation both
\* compute the value of the tree from either rendering
Same(a, b) == a.kind = b.kind /\ (a.kind = "val" => a = b)
LadderComputesFold ==
  LET f == Fold(x) IN
  /\ Same(ExprOutcome(RenderMin(x)), f)
  /\ Same(ExprOutcome(RenderFull(x)), f)
ReferenceComputesFold ==
  LET f == Fold(x) IN
  /\ Same(MWOutcome(RenderMin(x)), f)
  /\ Same(MWOutcome(RenderFull(x)), f)

(* ---- token soups ---- *)
SoupQ == {"0", "1", "2.5", "400", "HUGE", "TINY", "+", "-", "*", "/", "^", "e", "mod", "round",
          "=", "<", "and", "not", "(", ")", "ln", "exp", "acos", "trunc", "foo", "inf"}
SoupT == SoupQ \cup {"5000", "sqrt", "or", "nan", ".", "div"}
SoupSmall == {"0", "1", "2.5", "+", "-", "*", "/", "^", "e", "mod", "round", "=", "and", "or",
              "not", "abs", "(", ")", "foo"}

SoupInit == x = <<>>
SoupNext == Len(x) < MaxSoup /\ \E t \in SoupAlphabet : x' = Append(x, t)
SoupSpec == SoupInit /\ [][SoupNext]_x

\* M (C05b): every evaluation of the model ends in a value or an in-band error
Total == /\ ExprOutcome(x).kind \in {"val", "err"}
         /\ MWOutcome(x).kind \in {"val", "err"}
\* the ladder accepts exactly the documented language and computes the same
LadderMatchesReference == Same(ExprOutcome(x), MWOutcome(x))
=============================================================================
