SPECIFICATION Spec
CONSTANTS
  Universe = "pre"
  MaxLen = 2
INVARIANT AsIsFlagsClean
CHECK_DEADLOCK FALSE
