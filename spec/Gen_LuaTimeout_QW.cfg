SPECIFICATION GSpec
CONSTANTS
  Dev <- DevIdeal
  B = 3
  RecMax = 1
  Bodies <- BodiesWhere
  Kinds <- KindsAll
  MaxDepth = 2
  Progs <- ProgramsWhere
INVARIANT GenInv
CHECK_DEADLOCK FALSE
