------------------------- MODULE Gen_ExpanderWidth -------------------------
(* C16: combs.  The dimension HOW MANY constructs stand SIDE BY SIDE in one   *)
(* piece of text (WIDTH) x WHAT the construct is x HOW DEEP each one is        *)
(* nested x WHICH piece of text holds them, for the two depth accountings of   *)
(* the expander twin (Expander.tla): the expansion path (expand_recurse) and   *)
(* the nesting counter of the argument-substitution pass (CutDeep).            *)
(*                                                                            *)
(* A comb is `width` copies of one tooth, each followed by a separator; a      *)
(* tooth is a nesting ladder of Gen_ExpanderDepth (n rungs of a pattern of     *)
(* kinds around a core: text, a bound argument reference {{{1}}}, or a         *)
(* <nowiki />).  The comb is placed in one of the texts the expander walks:    *)
(* the page, a template body, an argument value / a branch / a default value / *)
(* a link in a body, a default value on the page -- or its teeth are spread    *)
(* over the ARGUMENTS of one call / the parts of one link / the cases of one   *)
(* #switch (width of a construct instead of width of a text).                  *)
(*                                                                            *)
(* Depth is a property of nesting, never of position: the k-th sibling is as   *)
(* deep as the first.  TLC evaluates the twin on every comb and on the comb of *)
(* width 1 with the same tooth in the same place, checks the laws (path        *)
(* restored; a cut is reported; the verdict "too deep" does not depend on the  *)
(* width; nothing nested less than the limit is cut; a substitution pass over  *)
(* content nested less than the limit is the identity) and prints the texts as *)
(* source atoms with the predicted output / messages.                          *)
(* Demo_ExpanderWidth_accumulate: a pass whose counter runs on from sibling to *)
(* sibling (CutDeepAcc) violates PassIdentityBelowLimit at width L + 1.        *)
EXTENDS Gen_ExpanderDepth

(* ---------------- teeth and combs ---------------- *)
Core(k) == CASE k = "text" -> T("c")
             [] k = "ref"  -> <<Par(<<"1">>)>>                 \* {{{1}}}: bound in a body (to "x"), as written on the page
             [] k = "nw"   -> <<Txt(<<"a", "NWS">>)>>          \* a<nowiki />
Tooth(t) == Ladder(t.pat, 1, t.n, Core(t.core))
Sep == T(",")
RECURSIVE Rep(_, _)
Rep(n, tooth) == IF n = 0 THEN <<>> ELSE tooth \o Sep \o Rep(n - 1, tooth)

KeyName == [i \in 1..400 |-> "k" \o ToString(i)]
RECURSIVE ArgsOf(_, _, _), PartsOf(_, _, _), CasesOf(_, _, _)
ArgsOf(i, n, tooth) == IF i > n THEN <<>> ELSE <<Named(<<KeyName[i]>>, tooth)>> \o ArgsOf(i + 1, n, tooth)       \* |k1=tooth|k2=tooth ..
PartsOf(i, n, tooth) == IF i > n THEN <<>> ELSE <<tooth>> \o PartsOf(i + 1, n, tooth)
CasesOf(i, n, tooth) == IF i > n THEN <<>> ELSE <<[key |-> <<KeyName[i]>>, val |-> tooth]>> \o CasesOf(i + 1, n, tooth)

\* where the comb stands.  tpl: the body of template W1 (called as {{W1|x}} by the page) or nothing
InBody(b) == [page |-> <<Call("W1", <<Pos(T("x"))>>)>>, hasTpl |-> TRUE, tpl |-> b]
OnPage(p) == [page |-> p, hasTpl |-> FALSE, tpl |-> <<>>]
Place(w, n, tooth) ==
  LET cb == Rep(n, tooth) IN
  CASE w = "page"     -> OnPage(cb)                                              \* tooth,tooth,..
    [] w = "pagedef"  -> OnPage(<<ParD(<<"u">>, cb)>>)                            \* {{{u|tooth,tooth,..}}}
    [] w = "pagearg"  -> OnPage(<<Call("T1", <<Pos(cb)>>)>>)                      \* {{T1|tooth,tooth,..}}
    [] w = "pageargs" -> OnPage(<<Call("T1", ArgsOf(1, n, tooth))>>)              \* {{T1|k1=tooth|k2=tooth..}}
    [] w = "body"     -> InBody(cb)
    [] w = "bodydef"  -> InBody(<<ParD(<<"u">>, cb)>>)
    [] w = "argval"   -> InBody(<<Call("T1", <<Pos(cb)>>)>>)
    [] w = "named"    -> InBody(<<Call("T1", <<Named(<<"x">>, cb)>>)>>)
    [] w = "ifbr"     -> InBody(<<If(T("1"), cb, <<>>)>>)
    [] w = "ifcond"   -> InBody(<<If(cb, T("y"), <<>>)>>)
    [] w = "link"     -> InBody(<<Link(<<T("a"), cb>>)>>)
    [] w = "ext"      -> InBody(<<Ext(cb)>>)
    [] w = "args"     -> InBody(<<Call("T1", ArgsOf(1, n, tooth))>>)
    [] w = "parts"    -> InBody(<<Link(<<T("a")>> \o PartsOf(1, n, tooth))>>)       \* [[a|tooth|tooth..]]
    [] w = "cases"    -> InBody(<<Switch(T("q"), CasesOf(1, n, tooth), TRUE, T("n"))>>)
    \* the comb is the body of W2, which W1 passes its argument on to (two bodies deep)
    [] w = "body2"    -> InBody(<<Call("W2", <<Pos(<<Par(<<"1">>)>>)>>)>>)

CombLib(p, pl) ==
  IF ~pl.hasTpl THEN LibBase
  ELSE IF p.where = "body2" THEN LibBase @@ ("W1" :> Plain(pl.tpl)) @@ ("W2" :> Plain(Rep(p.width, Tooth(p.tooth))))
  ELSE LibBase @@ ("W1" :> Plain(pl.tpl))

\* p = [where, tooth |-> [pat, n, core], width, o, need]
CombCase(p) ==
  LET pl == Place(p.where, p.width, Tooth(p.tooth))
  IN [comb |-> p, hasTpl |-> pl.hasTpl, tpl |-> pl.tpl, lib |-> CombLib(p, pl), need |-> p.need, page |-> pl.page, o |-> p.o, enw |-> TRUE]

(* ---------------- the family ---------------- *)
Th(pat, n, core) == [pat |-> pat, n |-> n, core |-> core]
OptOff == Opt(FALSE, FALSE, {}, FALSE, {}, FALSE, FALSE, "observe", "observe")     \* parser functions / #invoke come back as written
OptPre == Opt(TRUE, FALSE, {}, FALSE, {}, TRUE, TRUE, "none", "none")              \* pre-expansion: only W1 / W2 are selected
P(w, t, n, o, need) == [where |-> w, tooth |-> t, width |-> n, o |-> o, need |-> need]

\* flat teeth: one construct of every kind (around text and around {{{1}}}), the bare reference, <nowiki />
FlatKinds(z) == {"tpos", "tnamed", "ifbr", "ifelse", "ifcond", "eqbr", "eqa", "eqb", "swbr", "swval", "swdflt", "def", "pname", "link", "ext", "inv"}
FlatTeeth(z) == { Th(<<k>>, 1, c) : k \in FlatKinds(0), c \in {"text", "ref"} } \cup { Th(<<"tpos">>, 0, "ref"), Th(<<"tpos">>, 0, "nw") }
FlatTeethQ(z) == { Th(<<k>>, 1, "ref") : k \in {"tpos", "ifcond", "swbr", "def", "pname", "link", "ext", "inv"} }
                 \cup { Th(<<k>>, 1, "text") : k \in {"tnamed", "ifbr", "eqb", "swdflt"} }
                 \cup { Th(<<"tpos">>, 0, "ref"), Th(<<"tpos">>, 0, "nw") }
\* teeth a few levels deep, of mixed kinds
SmallTeeth(z) == { Th(<<"link", "tpos", "def">>, 3, "ref"), Th(<<"ifcond", "swbr">>, 2, "ref"), Th(<<"pname", "ifelse">>, 2, "text"), Th(<<"ext", "ifbr">>, 2, "ref") }
\* width x depth: deep teeth (nested less than the limit allows), many of them
DeepTeeth(z) == { Th(<<"link">>, 60, "ref"), Th(<<"def">>, 60, "text"), Th(<<"pname">>, 60, "text"), Th(<<"tpos">>, 30, "ref"), Th(<<"ifbr">>, 20, "text"),
                  Th(<<"link", "def">>, 60, "ref"), Th(<<"swbr">>, 20, "ref") }
DeepTeethQ(z) == { Th(<<"link">>, 60, "ref"), Th(<<"def">>, 60, "text"), Th(<<"tpos">>, 30, "ref") }
\* teeth nested beyond the limit: every one of them is cut, the siblings are not affected
OverTeeth(z) == { Th(<<"def">>, L + 1, "text"), Th(<<"link">>, L + 1, "ref") }

AllPlaces == {"page", "pagedef", "pagearg", "pageargs", "body", "bodydef", "argval", "named", "ifbr", "ifcond", "link", "ext", "args", "parts", "cases", "body2"}
TextPlaces == {"page", "pagedef", "body", "bodydef", "argval"}
\* one tooth of each class: the bare reference, a transclusion, a parser function, a link
ClassTeeth(z) == { Th(<<"tpos">>, 0, "ref"), Th(<<"tpos">>, 1, "ref"), Th(<<"ifcond">>, 1, "ref"), Th(<<"link">>, 1, "ref") }
BareRef == Th(<<"tpos">>, 0, "ref")

\* (the twin needs about 1.3 ms per tooth: the quick universe keeps most combs just beyond the limit, L + 1 wide)
CombParams ==
  IF Tier = "demo" THEN { P("body", BareRef, L + 1, OptAll, {}) } ELSE
  IF Tier = "thorough" THEN
       { P(w, t, L + 1, OptAll, {}) : w \in AllPlaces, t \in FlatTeeth(0) }
       \cup { P(w, t, n, OptAll, {}) : w \in AllPlaces, t \in FlatTeethQ(0), n \in {L, L + 50} }
       \cup { P(w, t, 3 * L, OptAll, {}) : w \in TextPlaces, t \in ClassTeeth(0) }
       \cup { P(w, t, L + 1, o, {"W1", "W2"}) : w \in AllPlaces, t \in ClassTeeth(0), o \in {OptOff, OptPre} }
       \cup { P(w, t, L + 1, OptAll, {}) : w \in AllPlaces, t \in SmallTeeth(0) }
       \cup { P(w, t, 60, OptAll, {}) : w \in {"body", "pagedef", "argval"}, t \in DeepTeeth(0) }
       \cup { P(w, t, 3, OptAll, {}) : w \in {"page", "body", "bodydef"}, t \in OverTeeth(0) }
  ELSE { P("body", t, L + 1, OptAll, {}) : t \in FlatTeethQ(0) }
       \cup { P(w, t, L + 1, OptAll, {}) : w \in AllPlaces, t \in ClassTeeth(0) \ {Th(<<"ifcond">>, 1, "ref")} }
       \cup { P(w, Th(<<"ifcond">>, 1, "ref"), L + 1, OptAll, {}) : w \in TextPlaces }
       \cup { P("body", BareRef, 3 * L, OptAll, {}), P("body", Th(<<"ifcond">>, 1, "ref"), L + 50, OptAll, {}), P("pagedef", Th(<<"tpos">>, 1, "ref"), L + 50, OptAll, {}) }
       \cup { P(w, t, L + 1, o, {"W1", "W2"}) : w \in {"body", "pagedef"}, t \in ClassTeeth(0) \ {Th(<<"link">>, 1, "ref")}, o \in {OptOff, OptPre} }
       \cup { P(w, t, L + 1, OptAll, {}) : w \in {"body", "pagedef"}, t \in SmallTeeth(0) }
       \cup { P("body", Th(<<"link", "def">>, 50, "ref"), 60, OptAll, {}), P("body", Th(<<"def">>, L + 1, "text"), 3, OptAll, {}) }

InitW == case \in { CombCase(p) : p \in CombParams }
SpecW == InitW /\ [][Next]_case

(* ---------------- laws ---------------- *)
HasDepthMsg(r) == \E j \in 1..Len(r.st.msgs) : r.st.msgs[j].sortid = "core/1115"
Reported(r) == HasDepthMsg(r) \/ Cls(r) = "cut"
\* the same tooth in the same place, alone
One(c) == CombCase([c.comb EXCEPT !.width = 1])
\* "too deep" is a verdict on nesting: it does not depend on how many siblings there are
WidthIndependentR(r, r1) == Reported(r) <=> Reported(r1)
\* nothing is cut where the recursion (expansion path, or path + nesting walked by one pass) stays below the limit
NoFalseDepthR(r) == r.st.peak < L => ~Reported(r)
\* a substitution pass over a text whose constructs are nested less than the limit changes nothing
Texts(c) == {c.page} \cup {IncludablePart(c.lib[n]) : n \in DOMAIN c.lib}
PassIdentityBelowLimit(c) == \A t \in Texts(c) : SynDepth(t) <= L => CutDeep(t, 0, [lim |-> L, mark |-> DeepItem]) = t

(* ---------------- the defect class, as a design (for the demo) ---------------- *)
\* A pass whose counter is not restored between siblings: the i-th construct of a text is treated as if it
\* were nested i - 1 levels deeper than the text.  (Copy of CutDeep with the one difference.)
RECURSIVE CutDeepAcc(_, _, _), CutDeepAccItem(_, _, _), CutDeepAccArgs(_, _, _, _), CutDeepAccCases(_, _, _, _), CutDeepAccParts(_, _, _, _)
CutDeepAcc(c, d, m) ==
  IF c = <<>> THEN <<>>
  ELSE <<CutDeepAccItem(Head(c), d, m)>> \o CutDeepAcc(Tail(c), (IF Head(c).k \in NestKinds THEN d + 1 ELSE d), m)
CutDeepAccArgs(args, i, d, m) ==
  IF i > Len(args) THEN <<>>
  ELSE <<[args[i] EXCEPT !.key = CutDeepAcc(@, d, m), !.val = CutDeepAcc(@, d, m)]>> \o CutDeepAccArgs(args, i + 1, d, m)
CutDeepAccCases(cs, i, d, m) ==
  IF i > Len(cs) THEN <<>>
  ELSE <<(IF IsFT(cs[i]) THEN cs[i] ELSE [cs[i] EXCEPT !.val = CutDeepAcc(@, d, m)])>> \o CutDeepAccCases(cs, i + 1, d, m)
CutDeepAccParts(ps, i, d, m) == IF i > Len(ps) THEN <<>> ELSE <<CutDeepAcc(ps[i], d, m)>> \o CutDeepAccParts(ps, i + 1, d, m)
CutDeepAccItem(it, d, m) ==
  IF it.k \notin NestKinds THEN it
  ELSE IF d >= m.lim THEN m.mark
  ELSE CASE it.k = "c" -> [it EXCEPT !.args = CutDeepAccArgs(@, 1, d + 1, m)]
         [] it.k = "inv" -> [it EXCEPT !.args = CutDeepAccArgs(@, 1, d + 1, m)]
         [] it.k = "if" -> [it EXCEPT !.c = CutDeepAcc(@, d + 1, m), !.y = CutDeepAcc(@, d + 1, m), !.n = CutDeepAcc(@, d + 1, m)]
         [] it.k = "eq" -> [it EXCEPT !.a = CutDeepAcc(@, d + 1, m), !.b = CutDeepAcc(@, d + 1, m), !.y = CutDeepAcc(@, d + 1, m), !.n = CutDeepAcc(@, d + 1, m)]
         [] it.k = "sw" -> [it EXCEPT !.v = CutDeepAcc(@, d + 1, m), !.cases = CutDeepAccCases(@, 1, d + 1, m), !.dflt = CutDeepAcc(@, d + 1, m)]
         [] it.k = "l" -> [it EXCEPT !.args = CutDeepAccParts(@, 1, d + 1, m)]
         [] it.k = "x" -> [it EXCEPT !.c = CutDeepAcc(@, d + 1, m)]
         [] it.k = "p" -> [it EXCEPT !.def = CutDeepAcc(@, d + 1, m)]
         [] it.k = "pc" -> [it EXCEPT !.name = CutDeepAcc(@, d + 1, m), !.def = CutDeepAcc(@, d + 1, m)]
DemoAccumulate == \A t \in Texts(case) : SynDepth(t) <= L => CutDeepAcc(t, 0, [lim |-> L, mark |-> DeepItem]) = t

(* ---------------- the case as source text ---------------- *)
LibSrc(c) == [n \in (DOMAIN c.lib) \ (DOMAIN LibBase) |-> Src(IncludablePart(c.lib[n]))]
RECURSIVE MaxSyn(_)
MaxSyn(S) == IF S = {} THEN 0 ELSE LET t == CHOOSE x \in S : TRUE IN Max2(SynDepth(t), MaxSyn(S \ {t}))

\* (c1: One(c), evaluated once)
EmitW(c, c1, r, r1) ==
  PrintT(<<"CASE", ToJson([where |-> c.comb.where, pat |-> c.comb.tooth.pat, n |-> c.comb.tooth.n, core |-> c.comb.tooth.core,
                           width |-> c.comb.width, o |-> c.o, need |-> c.need, base |-> LibBase,
                           page |-> Src(c.page), tpls |-> LibSrc(c), tooth |-> Src(Tooth(c.comb.tooth)),
                           nest |-> MaxSyn(Texts(c)),
                           out |-> r.out, msgs |-> r.st.msgs, stack |-> r.st.stack, peak |-> r.st.peak, reported |-> Reported(r),
                           one_page |-> Src(c1.page), one_tpls |-> LibSrc(c1), one_out |-> r1.out, one_reported |-> Reported(r1)])>>)

\* (the bound variables force one evaluation of the twin per case: TLC re-evaluates LET definitions on every reference)
GenInvW ==
  \E c1 \in {One(case)} : \E r \in {Run(case, {})} : \E r1 \in {Run(c1, {})} :
     /\ StackRestoredR(r) /\ CutsReportedR(r) /\ StackRestoredR(r1)
     /\ WidthIndependentR(r, r1) /\ NoFalseDepthR(r) /\ NoFalseDepthR(r1)
     /\ PassIdentityBelowLimit(case)
     /\ EmitW(case, c1, r, r1)
=============================================================================
