SPECIFICATION SoupSpec
CONSTANTS
  Dev <- DevBarrierOnly
  Lits <- LitsQ
  Lits2 <- LitsTwo
  UnOps <- UnExact
  BinOps <- BinAll
  Families <- NoFam
  SoupAlphabet <- SoupQ
  MaxSoup = 3
INVARIANT Total
CHECK_DEADLOCK FALSE
