SPECIFICATION Spec
CONSTANTS
  Dev <- DevNone
  Titles <- TitlesOne
  Sections <- SecNone
  Subsections <- SecNone
  EmitSet <- EmitNone
  ExpandTexts <- ExpandTables
  ParseTexts <- ParseTables
  Markers <- MarkersMore
  MaxMsgs = 1
  MaxMarkers = 2
INVARIANT TypeOK
INVARIANT PosIsState
INVARIANT AnnouncedPosition
INVARIANT StampsTitleSection
INVARIANT CleanAfterStartPage
INVARIANT PathIsTitle
INVARIANT CookieInjective
INVARIANT NowikiNumbered
INVARIANT StripSameContentSameNumber
PROPERTY PathRestored
PROPERTY CookiesOnlyGrow
PROPERTY ListsOnlyGrow
CHECK_DEADLOCK FALSE
