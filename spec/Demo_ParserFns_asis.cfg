SPECIFICATION Spec
CONSTANTS
  Dev <- DevAsIs
  Known <- KnownBuiltin
  Names <- NamesBuiltin
INVARIANT EveryCallEndsInBand
CHECK_DEADLOCK FALSE
