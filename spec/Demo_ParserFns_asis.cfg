SPECIFICATION Spec
CONSTANTS
  Dev <- DevAsIs
  Known <- KnownBuiltin
  Names <- NamesBuiltin
  Sites <- SitesBuiltin
  NsFns <- NsFnsBuiltin
INVARIANT EveryCallEndsInBand
CHECK_DEADLOCK FALSE
