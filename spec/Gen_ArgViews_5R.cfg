SPECIFICATION SpecR
CONSTANTS
  MaxLen = 0
  Known <- KnownC14
INVARIANT GenInv
CHECK_DEADLOCK FALSE
