SPECIFICATION Spec
CONSTANTS
  Universe = "nestW4"
  MaxLen = 3
INVARIANT MachineOK
CHECK_DEADLOCK FALSE
