SPECIFICATION Spec
CONSTANTS
  Procs <- P3
  Dev <- DevSkip
  Scenarios <- ScnBoot3
INVARIANT NoFailure
INVARIANT TxnLockAgree
CHECK_DEADLOCK FALSE
