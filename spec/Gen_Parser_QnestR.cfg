SPECIFICATION Spec
CONSTANTS
  Universe = "nestR"
  MaxLen = 4
INVARIANT MachineOK
CHECK_DEADLOCK FALSE
