--------------------------- MODULE Trace_Pipeline ---------------------------
(* Validates recorded runs of the real pipeline against Pipeline.            *)
(* The trace file (env TRACE_FILE) holds the atom tables of the titles and   *)
(* texts used and a list of events:                                          *)
(*   reset  the scenario: base store, marks, dump, selection, skip/func,     *)
(*          override sources                                                 *)
(*   call   one per pipeline step the real code made (parse, defaults,       *)
(*          probe:True/False, backup, write, analyze) with the store and the *)
(*          backup file observed right after it                              *)
(*   end    the observation after analyze_and_overwrite_pages returned       *)
(*   save   save_pages_to_file + overwrite_pages over the tree: pages,       *)
(*          observed files, observed rows read back                          *)
(* The model is advanced by its own actions up to its next call; the call    *)
(* and the observed state must be the model's.  The verdict is total.        *)
EXTENDS Naturals, Sequences, FiniteSets, TLC, Json, IOUtils

TraceFile == JsonDeserialize(IOEnv.TRACE_FILE)
Events == TraceFile.events
TB == TraceFile.tables
T_PfxNs == TB.pfxns
T_CanonPfx == TB.canon
T_UpperOf == TB.upper
T_NsByLocal == TB.nsbylocal
T_ColonPre == TB.colonpre
T_ColonLast == TB.colonlast
T_IncOfBody == TB.incof
T_BodyUses == TB.bodyuses
Range(s) == {s[i] : i \in 1..Len(s)}
T_BodyPre == Range(TB.bodypre)
T_WinName == TB.winname
T_TplNs == TB.tplns
T_ModNs == TB.modns
T_Defaults == TB.defaults
T_OkModels == {"wikitext", "Scribunto", "json"}
T_Dev == Range(TB.dev)
NoArgs == {}

VARIABLES scn, marked, bak, pc, ip, preOv, probed, path, dump, sel, phase, pos, cur, com, memo,
          l, k, bad
P == INSTANCE Pipeline WITH PfxNs <- T_PfxNs, CanonPfx <- T_CanonPfx, UpperOf <- T_UpperOf,
       Dev <- T_Dev, ArgU <- NoArgs, TplNs <- T_TplNs, Defaults <- T_Defaults, OkModels <- T_OkModels,
       ModNs <- T_ModNs, NsByLocal <- T_NsByLocal, ColonPre <- T_ColonPre, ColonLast <- T_ColonLast,
       IncOfBody <- T_IncOfBody, BodyUses <- T_BodyUses, BodyPre <- T_BodyPre, WinName <- T_WinName

pv == <<scn, marked, bak, pc, ip, preOv, probed, path, dump, sel, phase, pos, cur, com, memo>>
tvars == <<pv, l, k, bad>>

(* ---- decoding ---- *)
Row5(x) == P!Row(x.title, x.ns, x.redirect, x.body, x.model)
Rows5(s) == {Row5(x) : x \in Range(s)}
MarksOf(s) == {P!Key(x.title, x.ns) : x \in {y \in Range(s) : y.pre}}
DumpOf(e) == [i \in 1..Len(e.dump) |->
               P!DPage(e.dump[i].title, e.dump[i].ns, e.dump[i].model, e.dump[i].red, e.dump[i].body, e.dump[i].inc)]
ItemOf(x) == P!Item(x.title, x.ns, x.red, x.pre, x.body, x.model, x.hidden)
SrcsOf(e) == [i \in 1..Len(e.srcs) |->
               [fmt |-> e.srcs[i].fmt, items |-> [j \in 1..Len(e.srcs[i].items) |-> ItemOf(e.srcs[i].items[j])]]]
ScnOf(e) == P!Scn(e.skip, e.func, e.hasOv, SrcsOf(e))

TInit ==
  /\ l = 1 /\ k = 0 /\ bad = <<>>
  /\ P!PInit({}, {}, <<>>, {}, P!Scn(FALSE, FALSE, FALSE, <<>>))

(* ---- judging one observation ---- *)
Judge(e, call, callOK) ==
  LET oRows == Rows5(e.rows)
      oMarks == MarksOf(e.rows)
      oBak == Rows5(e.bak.rows)
      oBakMarks == MarksOf(e.bak.rows)
      rowsOK == oRows = cur /\ Len(e.rows) = Cardinality(cur)
      marksOK == oMarks = marked
      bakOK == e.bak.some = bak.some /\ oBak = bak.rows
      bakMarksOK == oBakMarks = bak.marked
  IN bad' = IF callOK /\ rowsOK /\ marksOK /\ bakOK /\ bakMarksOK THEN bad
            ELSE Append(bad, [i |-> l, tid |-> e.tid, kind |-> "state", callOK |-> callOK, expcall |-> call,
                              rowsOK |-> rowsOK, marksOK |-> marksOK, bakOK |-> bakOK, bakMarksOK |-> bakMarksOK,
                              missing |-> cur \ oRows, unexpected |-> oRows \ cur,
                              expmarks |-> marked, bakexp |-> [some |-> bak.some, rows |-> bak.rows],
                              preov |-> preOv.rows])

F4(f) == [path |-> f.path, title |-> f.title, kind |-> f.content.kind, body |-> f.content.body,
          target |-> f.content.title]
B3(x) == [title |-> x.row.title, ns |-> x.row.ns, kind |-> x.content.kind, body |-> x.row.body,
          target |-> x.content.title]
JudgeSave(e) ==
  LET pages == [i \in 1..Len(e.pages) |-> Row5(e.pages[i])]
      tree == P!Tree(pages, e.win)
      mTree == {F4(f) : f \in tree}
      mBack == {B3(x) : x \in P!ReadBack(tree)}
      oTree == Range(e.tree)
      oBack == Range(e.back)
  IN bad' = IF mTree = oTree /\ mBack = oBack THEN bad
            ELSE Append(bad, [i |-> l, tid |-> e.tid, kind |-> "save", treeOK |-> mTree = oTree, backOK |-> mBack = oBack,
                              missing |-> (mTree \ oTree) \cup (mBack \ oBack),
                              unexpected |-> (oTree \ mTree) \cup (oBack \ mBack)])

NoteOrder(e, what, call) ==
  bad' = Append(bad, [i |-> l, tid |-> e.tid, kind |-> what, expcall |-> call])

TNext ==
  /\ l <= Len(Events)
  /\ LET e == Events[l] IN
     IF e.op = "reset"
     THEN /\ P!PReset(Rows5(e.base), MarksOf(e.base), DumpOf(e), Range(e.sel), ScnOf(e))
          /\ k' = 0 /\ l' = l + 1 /\ bad' = bad
     ELSE IF e.op = "save"
     THEN /\ JudgeSave(e) /\ l' = l + 1 /\ UNCHANGED <<pv, k>>
     ELSE IF Len(path) > k
     THEN \* the model has made a call that is not matched yet
          IF e.op = "call"
          THEN /\ Judge(e, path[k + 1], e.name = path[k + 1])
               /\ k' = k + 1 /\ l' = l + 1 /\ UNCHANGED pv
          ELSE /\ NoteOrder(e, "missing-call", path[k + 1])
               /\ k' = k + 1 /\ UNCHANGED <<pv, l>>
     ELSE IF pc # "end"
     THEN /\ P!PNext /\ UNCHANGED <<l, k, bad>>
     ELSE IF e.op = "end"
     THEN /\ Judge(e, "end", TRUE) /\ l' = l + 1 /\ UNCHANGED <<pv, k>>
     ELSE /\ NoteOrder(e, "extra-call", "end") /\ l' = l + 1 /\ UNCHANGED <<pv, k>>

TSpec == TInit /\ [][TNext]_tvars

Verdict == (l = Len(Events) + 1) => PrintT(<<"VERDICT", ToJson([consumed |-> l - 1, bad |-> bad])>>)
\* the model-level properties hold along every validated execution too
ModelInv == P!P1_FinalIsOverlay /\ P!P2_BackupBeforeOverrides /\ P!P3_ProbeWritesNothing /\ P!P3_ProbeIsRight
=============================================================================
