SPECIFICATION SoupSpec
CONSTANTS
  Dev <- DevIdeal
  Lits <- LitsQ
  Lits2 <- LitsTwo
  UnOps <- UnExact
  BinOps <- BinAll
  Families <- NoFam
  SoupAlphabet <- SoupQ
  MaxSoup = 3
INVARIANT EmitSoup
CHECK_DEADLOCK FALSE
