SPECIFICATION Spec
CONSTANTS
  MaxTok = 1
  Mode = "comment"
  Depth = 0
INVARIANT GenInv
CHECK_DEADLOCK FALSE
