SPECIFICATION Spec
CONSTANTS
  MaxTok = 1
  Mode = "comment"
INVARIANT GenInv
CHECK_DEADLOCK FALSE
