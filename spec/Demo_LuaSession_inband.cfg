SPECIFICATION Spec
INVARIANT DemoInBand
CHECK_DEADLOCK FALSE
