SPECIFICATION PSpec
CONSTANTS
  ShapeIds <- IdsAll
  PDev <- PDevCloseGlob
INVARIANT CloseExact
CHECK_DEADLOCK FALSE
