SPECIFICATION Spec
CONSTANTS
  Universe = "tagtokN"
  MaxLen = 3
INVARIANT MachineOK
CHECK_DEADLOCK FALSE
