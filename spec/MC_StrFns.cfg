SPECIFICATION Spec
CONSTANTS
  LowerOf <- T_Lower
  UpperOf <- T_Upper
  Dev <- DevIdeal
  Alpha <- AlphaAB
  MaxS = 3
  MaxLong = 4
  Offs <- OffsQ
  Needles <- NeedlesQ
  Fns <- FnsAll
  Spell <- SpellQ
INVARIANT Laws
INVARIANT NumeralsDenote
INVARIANT SpellingDoesNotMatter
CHECK_DEADLOCK FALSE
