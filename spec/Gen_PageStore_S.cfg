SPECIFICATION GSpec
CONSTANTS
  PfxNs <- S_PfxNs
  CanonPfx <- S_CanonPfx
  UpperOf <- T_UpperOf
  ArgU <- ArgSet
  Dev <- DevIdeal
  Namespaces <- S_Namespaces
  Bases <- BasesTwo
  Bodies <- BodiesOne
  MaxLen = 2
  LookupPfx <- PfxTable
  WithUnderscore = TRUE
  WithNoNs = FALSE
  NrSet <- NrBoth
INVARIANT GenInv
CHECK_DEADLOCK FALSE
INVARIANT SiteInv
