SPECIFICATION MCSpec
CONSTANTS
  PfxNs <- T_PfxNs
  CanonPfx <- T_CanonPfx
  UpperOf <- T_UpperOf
  ArgU <- NoArgs
  Dev <- DevIdeal
  TplNs = 10
  MaxN = 3
  MaxRedirects = 3
  Combos <- CombosQ2
  HistKinds <- KindsQ
INVARIANT ResultIsClosure
INVARIANT ResultWithinStatement
INVARIANT NeverOvermarks
INVARIANT PushedOnce
CHECK_DEADLOCK FALSE
