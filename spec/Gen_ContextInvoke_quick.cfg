SPECIFICATION Spec
CONSTANTS
  Tier = "quick"
INVARIANT GenInv
CHECK_DEADLOCK FALSE
