---------------------------- MODULE Trace_Unparse ----------------------------
(* Validates recorded round trips of the real code against Unparse.tla.       *)
(* TRACE_FILE is a JSON object                                                *)
(*   known : names of deviations currently listed as open findings            *)
(*   cases : [t1, w1, t2, w2, t3]   parse -> node_to_wikitext -> parse ->     *)
(*           node_to_wikitext -> parse of one document (abstract trees of     *)
(*           ptree2, texts as atoms); a case of the generator's adjacency     *)
(*           family also has  m = the tree its block reader gives             *)
(*   subs  : [x, w, t]   x = a sub-tree, string or child list handed directly *)
(*           to node_to_wikitext, w = its output, t = parse(w)                *)
(* Per case TLC decides  Equiv(t2, t1), Equiv(t3, t2)  (the property) and,    *)
(* DRIFT only, whether the real text equals Unparse of the abstract tree and   *)
(* whether Equiv(t1, m).  For a rejected case TLC also reports the numbers of  *)
(* LIST nodes / nested LIST nodes / items / block nodes and names the seam     *)
(* failure (lists-merged, list-nested, list-split, blocks-changed).            *)
EXTENDS Unparse, Json, IOUtils

Batch == JsonDeserialize(IOEnv.TRACE_FILE)
Known == {Batch.known[i] : i \in 1..Len(Batch.known)}
Cases == Batch.cases
Subs == Batch.subs

Root(kids) == [kind |-> "ROOT", sarg |-> <<>>, largs |-> <<<<Str(<<"Pg">>)>>>>, attrs |-> <<>>,
               children |-> kids, defn |-> <<>>]

(* ---- the as-is behaviour of a parser-side deviation, as a tree transformer ---- *)
\* "NoincludeKeptInCallArguments": inside {{...}} / {{{...}}} arguments the protection
\* marker written by to_wikitext stays in the text
CallKinds == {"TEMPLATE", "TEMPLATE_ARG", "PARSER_FN"}
RECURSIVE MarkKids(_, _), MarkNode(_, _)
MarkKids(kids, inCall) ==
  [i \in 1..Len(kids) |->
     IF IsStr(kids[i]) THEN (IF inCall THEN Str(Protect(kids[i].s)) ELSE kids[i])
     ELSE MarkNode(kids[i], inCall)]
MarkNode(x, inCall) ==
  LET c == inCall \/ x.kind \in CallKinds IN
  [x EXCEPT !.largs = [i \in 1..Len(x.largs) |-> MarkKids(x.largs[i], c)],
            !.children = MarkKids(x.children, c),
            !.defn = [i \in 1..Len(x.defn) |-> MarkKids(x.defn[i], c)]]
AsIsTree(t) == IF "NoincludeKeptInCallArguments" \in Known THEN MarkNode(t, FALSE) ELSE t
\* a text that already holds the marker can only come from such an argument
RECURSIVE HasMarkerSeq(_)
HasMarkerSeq(s) == Len(s) >= 4 /\ ((s[1] = "<" /\ s[2] = "noinclude" /\ s[3] = "/" /\ s[4] = ">") \/ HasMarkerSeq(Tail(s)))
RECURSIVE HasMarker(_), HasMarkerKids(_)
HasMarkerKids(kids) == \E k \in 1..Len(kids) : HasMarker(kids[k])
HasMarker(x) ==
  IF IsStr(x) THEN HasMarkerSeq(x.s)
  ELSE IF IsList(x) THEN HasMarkerKids(x.list)
  ELSE HasMarkerKids(x.children) \/ (\E k \in 1..Len(x.largs) : HasMarkerKids(x.largs[k]))
       \/ (\E k \in 1..Len(x.defn) : HasMarkerKids(x.defn[k]))
CallDev(x, root) ==
  IF "NoincludeKeptInCallArguments" \in Known /\ (AsIsTree(root) # root \/ HasMarker(x))
  THEN {"NoincludeKeptInCallArguments"} ELSE {}
\* the emitter model (as listed, else any combination of its deviations) that reproduces a real text
EmitterExplains(x, w) == \E D \in SUBSET AllUnparseDevs : Unparse(x, D) = w

EmitDevs == Known \cap AllUnparseDevs

RECURSIVE NumKind(_, _), NumKindKids(_, _)
NumKindKids(kids, k) == IF kids = <<>> THEN 0 ELSE NumKind(Head(kids), k) + NumKindKids(Tail(kids), k)
RECURSIVE SumArgs(_, _)
SumArgs(ls, k) == IF ls = <<>> THEN 0 ELSE NumKindKids(Head(ls), k) + SumArgs(Tail(ls), k)
NumKind(x, k) ==
  IF IsStr(x) THEN 0
  ELSE (IF x.kind = k THEN 1 ELSE 0) + NumKindKids(x.children, k) + SumArgs(x.largs, k) + SumArgs(x.defn, k)

(* ---- block adjacency: how many lists, how many of them nested, how many items, how many blocks ---- *)
\* (for the report of a rejected round trip: the verdict is Equiv alone).  Two lists that follow each
\* other are separate nodes only because of the blank line between them; an emitter that loses it
\* gives ONE list ("lists-merged": fewer LIST nodes, the same items) or hangs the second list into
\* the last item of the first one ("list-nested": the same LIST nodes, more of them inside an item).
RECURSIVE NumNested(_, _), NumNestedKids(_, _), NumNestedArgs(_, _)
NumNestedKids(kids, inItem) == IF kids = <<>> THEN 0 ELSE NumNested(Head(kids), inItem) + NumNestedKids(Tail(kids), inItem)
NumNestedArgs(ls, inItem) == IF ls = <<>> THEN 0 ELSE NumNestedKids(Head(ls), inItem) + NumNestedArgs(Tail(ls), inItem)
NumNested(x, inItem) ==
  IF IsStr(x) THEN 0
  ELSE LET f == inItem \/ x.kind = "LIST_ITEM" IN
       (IF x.kind = "LIST" /\ inItem THEN 1 ELSE 0) + NumNestedKids(x.children, f) + NumNestedArgs(x.largs, f) + NumNestedArgs(x.defn, f)
RECURSIVE NumBlocks(_), NumBlocksKids(_), NumBlocksArgs(_)
NumBlocksKids(kids) == IF kids = <<>> THEN 0 ELSE NumBlocks(Head(kids)) + NumBlocksKids(Tail(kids))
NumBlocksArgs(ls) == IF ls = <<>> THEN 0 ELSE NumBlocksKids(Head(ls)) + NumBlocksArgs(Tail(ls))
NumBlocks(x) ==
  IF IsStr(x) THEN 0
  ELSE (IF IsBlock(x) THEN 1 ELSE 0) + NumBlocksKids(x.children) + NumBlocksArgs(x.largs) + NumBlocksArgs(x.defn)
ListStats(t) == [lists |-> NumKind(t, "LIST"), nested |-> NumNested(t, FALSE), items |-> NumKind(t, "LIST_ITEM"), blocks |-> NumBlocks(t)]
SeamOf(a, b) ==
  IF b.lists < a.lists /\ b.items = a.items THEN "lists-merged"
  ELSE IF b.lists = a.lists /\ b.items = a.items /\ b.nested > a.nested THEN "list-nested"
  ELSE IF b.lists > a.lists /\ b.items = a.items THEN "list-split"
  ELSE IF b.blocks # a.blocks THEN "blocks-changed" ELSE ""
\* node kinds the statement's grammar does not name (the generator's adjacency family holds them
\* as neighbours; a difference in such a document is DRIFT)
OutsideKinds == {"PREFORMATTED", "PRE", "MAGIC_WORD"}
\* a case of the adjacency family carries the tree the generator's block reader gives (field m)
HasModel(c) == "m" \in DOMAIN c

(* ---- where two trees differ (for the report: the verdict is Equiv alone) ---- *)
\* First difference of two normalised trees in document order: which node (path of kinds from the
\* root), what about it (kind / sarg / number of argument lists / attributes / an argument / children /
\* definition), how many argument lists it had and has, how many of them were EMPTY.
\* `soft`: the difference lies at or below a LINK / URL one of whose arguments is empty ([[a|]] is the
\* pipe-trick spelling, [url ] an external link with an empty text) - forms the statement's grammar
\* does not clearly contain; the harness reports those as DRIFT.
NumEmpty(largs) == Cardinality({k \in 1..Len(largs) : largs[k] = <<>>})
SoftNode(a) == a.kind \in {"LINK", "URL"} /\ NumEmpty(a.largs) > 0
NoDiff == [what |-> "", path |-> <<>>, was |-> "", now |-> "", n1 |-> 0, n2 |-> 0, empty1 |-> 0, soft |-> FALSE]
Rep(what, path, was, now, n1, n2, e1, soft) ==
  [what |-> what, path |-> path, was |-> was, now |-> now, n1 |-> n1, n2 |-> n2, empty1 |-> e1, soft |-> soft]
KindName(c) == IF IsStr(c) THEN "text" ELSE c.kind
RECURSIVE DiffNode(_, _, _, _), DiffKids(_, _, _, _, _), DiffLists(_, _, _, _, _, _)
DiffKids(ka, kb, k, path, soft) ==
  IF k > Len(ka) /\ k > Len(kb) THEN NoDiff
  ELSE IF k > Len(ka) \/ k > Len(kb)
       THEN Rep("child-count", path, IF k > Len(ka) THEN "" ELSE KindName(ka[k]), IF k > Len(kb) THEN "" ELSE KindName(kb[k]),
                Len(ka), Len(kb), 0, soft)
  ELSE IF IsStr(ka[k]) # IsStr(kb[k]) THEN Rep("child-kind", path, KindName(ka[k]), KindName(kb[k]), Len(ka), Len(kb), 0, soft)
  ELSE IF IsStr(ka[k]) THEN (IF ka[k] = kb[k] THEN DiffKids(ka, kb, k + 1, path, soft)
                             ELSE Rep("text", path, "text", "text", Len(ka[k].s), Len(kb[k].s), 0, soft))
  ELSE LET d == DiffNode(ka[k], kb[k], path, soft) IN IF d.what # "" THEN d ELSE DiffKids(ka, kb, k + 1, path, soft)
DiffLists(la, lb, k, path, label, soft) ==   \* argument lists / definition: same length
  IF k > Len(la) THEN NoDiff
  ELSE LET d == DiffKids(la[k], lb[k], 1, Append(path, label \o ToString(k)), soft)
       IN IF d.what # "" THEN d ELSE DiffLists(la, lb, k + 1, path, label, soft)
DiffNode(a, b, path, soft0) ==
  LET p == Append(path, a.kind)
      soft == soft0 \/ SoftNode(a)
      R(what, was, now) == Rep(what, p, was, now, Len(a.largs), Len(b.largs), NumEmpty(a.largs), soft)
  IN IF a.kind # b.kind THEN R("kind", a.kind, b.kind)
     ELSE IF a.sarg # b.sarg THEN R("sarg", a.kind, b.kind)
     ELSE IF Len(a.largs) # Len(b.largs) THEN R("argument-count", a.kind, b.kind)
     ELSE IF a.attrs # b.attrs THEN R("attributes", a.kind, b.kind)
     ELSE IF Len(a.defn) # Len(b.defn) THEN R("definition", a.kind, b.kind)
     ELSE LET da == DiffLists(a.largs, b.largs, 1, p, "arg", soft) IN
          IF da.what # "" THEN da
          ELSE LET dc == DiffKids(a.children, b.children, 1, p, soft) IN
               IF dc.what # "" THEN dc ELSE DiffLists(a.defn, b.defn, 1, p, "definition", soft)
Diff(t1, t2) == DiffNode(Norm(t1), Norm(t2), <<>>, FALSE)

(* ---- which directly passed values are self-contained wikitext ---- *)
StandaloneKinds == LevelKinds \cup {"LIST", "TABLE", "BOLD", "ITALIC", "LINK", "TEMPLATE", "TEMPLATE_ARG",
                                   "PARSER_FN", "URL", "HTML", "HLINE"}
LineStartSpecial == {"SP", "NL", "*", "#", ":", ";", "=", "|", "!", "{", "-", "}"}
\* a string is checked when it denotes plain text (brackets allowed: that is the protection)
Markup == {":", "|", "!", "{", "}", "<", ">", "'", "=", "*", "#", ";", "&", "_"}
ElemOK(c) == IF IsStr(c) THEN c.s # <<>> /\ (\A k \in 1..Len(c.s) : c.s[k] \notin Markup) ELSE c.kind \in StandaloneKinds
Eligible(x) ==
  IF IsStr(x) THEN x.s # <<>> /\ x.s[1] \notin LineStartSpecial /\ \A k \in 1..Len(x.s) : x.s[k] \notin Markup
  ELSE IF IsNode(x) THEN x.kind \in StandaloneKinds
  ELSE /\ x.list # <<>>
       /\ \A k \in 1..Len(x.list) : ElemOK(x.list[k])
       /\ (IsStr(x.list[1]) => x.list[1].s[1] \notin LineStartSpecial)
AsKids(x) == IF IsList(x) THEN x.list ELSE <<x>>

VARIABLES i, j, bad, drift, subbad, subdrift, nsub, mdrift
vars == <<i, j, bad, drift, subbad, subdrift, nsub, mdrift>>
Init == i = 1 /\ j = 1 /\ bad = <<>> /\ drift = <<>> /\ subbad = <<>> /\ subdrift = <<>> /\ nsub = 0 /\ mdrift = <<>>

StepCase ==
  /\ i <= Len(Cases)
  /\ LET c == Cases[i]
         e12 == Equiv(c.t2, c.t1)
         e23 == Equiv(c.t3, c.t2)
         u1 == Unparse(c.t1, EmitDevs)
         u2 == Unparse(c.t2, EmitDevs)
         ideal1 == Unparse(c.t1, {})
         \* which listed deviations matter for this document
         devs == {d \in EmitDevs : Unparse(c.t1, {d}) # ideal1} \cup CallDev(c.t1, c.t1)
         \* explained = the real code did exactly what the as-is model says where it deviates
         explained == /\ devs # {}
                      /\ c.w1 = u1
                      /\ ("NoincludeKeptInCallArguments" \in devs /\ devs \cap AllUnparseDevs = {}
                             => Equiv(c.t2, AsIsTree(c.t1)))
     IN /\ bad' = IF e12 /\ e23 THEN bad
                  ELSE Append(bad, [i |-> i, e12 |-> e12, e23 |-> e23,
                                    links |-> <<NumKind(c.t1, "LINK"), NumKind(c.t2, "LINK"), NumKind(c.t3, "LINK")>>,
                                    devs |-> IF explained THEN devs ELSE {},
                                    diag |-> IF ~e12 THEN Diff(c.t1, c.t2) ELSE Diff(c.t2, c.t3),
                                    stats |-> <<ListStats(c.t1), ListStats(c.t2), ListStats(c.t3)>>,
                                    seam |-> IF ~e12 THEN SeamOf(ListStats(c.t1), ListStats(c.t2)) ELSE SeamOf(ListStats(c.t2), ListStats(c.t3)),
                                    outside |-> KindsIn(c.t1) \cap OutsideKinds # {},
                                    ideal |-> ideal1])
        /\ mdrift' = IF HasModel(c) /\ ~Equiv(c.t1, c.m) THEN Append(mdrift, [i |-> i, diag |-> Diff(c.m, c.t1)]) ELSE mdrift
        /\ drift' = IF (c.w1 = u1 \/ EmitterExplains(c.t1, c.w1)) /\ (c.w2 = u2 \/ EmitterExplains(c.t2, c.w2)) THEN drift
                    ELSE Append(drift, [i |-> i, which |-> IF c.w1 = u1 THEN 2 ELSE 1,
                                        model |-> IF c.w1 = u1 THEN u2 ELSE u1])
  /\ i' = i + 1
  /\ UNCHANGED <<j, subbad, subdrift, nsub>>

StepSub ==
  /\ i > Len(Cases) /\ j <= Len(Subs)
  /\ LET c == Subs[j]
         el == Eligible(c.x)
         ok == Equiv(c.t, Root(AsKids(c.x)))
         u == Unparse(c.x, EmitDevs)
         devs == {d \in EmitDevs : Unparse(c.x, {d}) # Unparse(c.x, {})} \cup CallDev(c.x, Root(AsKids(c.x)))
     IN /\ subbad' = IF ~el \/ ok THEN subbad
                     ELSE Append(subbad, [j |-> j, devs |-> IF c.w = u THEN devs ELSE {},
                                          diag |-> Diff(Root(AsKids(c.x)), c.t),
                                          stats |-> <<ListStats(Root(AsKids(c.x))), ListStats(c.t)>>,
                                          seam |-> SeamOf(ListStats(Root(AsKids(c.x))), ListStats(c.t)),
                                          outside |-> KindsInKids(AsKids(c.x)) \cap OutsideKinds # {}])
        /\ subdrift' = IF c.w = u \/ EmitterExplains(c.x, c.w) THEN subdrift ELSE Append(subdrift, [j |-> j, model |-> u])
        /\ nsub' = IF el THEN nsub + 1 ELSE nsub
  /\ j' = j + 1
  /\ UNCHANGED <<i, bad, drift, mdrift>>

Next == StepCase \/ StepSub
Spec == Init /\ [][Next]_vars

Done == i = Len(Cases) + 1 /\ j = Len(Subs) + 1
Verdict == Done => PrintT(<<"VERDICT", ToJson([cases |-> i - 1, subs |-> j - 1, eligible |-> nsub, bad |-> bad,
                                               drift |-> drift, subbad |-> subbad, subdrift |-> subdrift, mdrift |-> mdrift])>>)
=============================================================================
