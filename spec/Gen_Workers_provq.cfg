SPECIFICATION GSpec
CONSTANTS
  Procs <- P2
  Dev <- DevAsIs
  Scenarios <- ScnProvQ
  Focus = "prov"
INVARIANT GenInv
CHECK_DEADLOCK FALSE
