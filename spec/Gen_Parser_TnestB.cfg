SPECIFICATION Spec
CONSTANTS
  Universe = "nestB"
  MaxLen = 3
INVARIANT MachineOK
CHECK_DEADLOCK FALSE
