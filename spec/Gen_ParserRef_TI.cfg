SPECIFICATION Spec
CONSTANTS
  Universe = "I5"
  MaxLines = 4
INVARIANT MachineOK
CHECK_DEADLOCK FALSE
