------------------------- MODULE Gen_SandboxReachStack -------------------------
(* Generator for the conformance run of SandboxReachStack: TLC enumerates    *)
(* every (context, source shape, history of bookkeeping manipulations and    *)
(* loads) of the configured universe that ends in a load and prints, per     *)
(* case, what the design demands of every step (exp: what the consumer gets, *)
(* what type(_python_top_env()) says afterwards, which names the page code   *)
(* sees - never a forbidden one -, whether a global assignment of the chunk  *)
(* lands in the host table - never -, what is left on the stack when the     *)
(* invocation has ended), the outcomes under every modelled deviation that   *)
(* differ (alt) and the deviations under which this very case leaks (breaks; *)
(* vacuity guard).  The harness performs the steps with the real helpers of  *)
(* a real module environment (harness/c06_stack.py).                         *)
EXTENDS MC_SandboxReachStack, Json

\* deviations under which page code gets hold of host names (each must be exposed by some case of the universe)
LeakLabels == {"HostFallbackLoader", "HostFallbackLoader+FallbackNilOnly",
               "DataEnvFromStack+HostFallbackLoadData", "DataEnvFromStack+HostFallbackLoadData+FallbackNilOnly"}
\* deviations that change which sandbox environment a chunk gets without leaking (explanations of drift)
DevLabelsS == LeakLabels \cup {"DataEnvFromStack"}
DevOfS(l) == CASE l = "HostFallbackLoader" -> KDevLoader
               [] l = "HostFallbackLoader+FallbackNilOnly" -> KDevLoaderNil
               [] l = "DataEnvFromStack+HostFallbackLoadData" -> KDevData
               [] l = "DataEnvFromStack+HostFallbackLoadData+FallbackNilOnly" -> KDevDataNil
               [] l = "DataEnvFromStack" -> KDevDataStack

\* what the harness can observe of a step
ObsS(o) == [got |-> o.got, sees |-> o.sees, hostwrite |-> o.hostwrite, top |-> o.top, residue |-> o.residue]
ObsAll(outs) == [i \in DOMAIN outs |-> ObsS(outs[i])]
\* a switch can only matter in a history that uses the loader path it sits on (LoaderEnv / DataEnvS in SEnter)
Touches(l, steps) ==
  \E i \in DOMAIN steps : steps[i].k = "load" /\
     steps[i].a \in (IF l \in {"HostFallbackLoader", "HostFallbackLoader+FallbackNilOnly"}
                     THEN {"require", "loader", "pkgloader"} ELSE {"loadData"})
LeaksS(outs) == \E i \in DOMAIN outs : outs[i].sees \cap ForbiddenNames # {} \/ outs[i].hostwrite

EmitS ==
  (Len(hist) >= 1 /\ hist[Len(hist)].step.k = "load") =>
    LET steps == [i \in DOMAIN hist |-> hist[i].step]
        exp == [i \in DOMAIN hist |-> hist[i].out]
    IN \E alts \in {[l \in DevLabelsS |-> IF Touches(l, steps) THEN ObsAll(SRun(DevOfS(l), cx, shape, steps))
                                           ELSE ObsAll(exp)]} :
         PrintT(<<"CASE", ToJson([cx |-> cx, shape |-> shape, steps |-> steps, exp |-> exp,
                                  compiles |-> Compiles(shape),
                                  alt |-> [l \in {x \in DevLabelsS : alts[x] # ObsAll(exp)} |-> alts[l]],
                                  breaks |-> {l \in LeakLabels : LeaksS(alts[l])}])>>)
GenInvS == StackConfined /\ EmitS
\* printed once: the atoms the harness has to concretise
UniverseS == PrintT(<<"UNIVERSE", ToJson([forbidden |-> ForbiddenNames, marker |-> Marker, helpers |-> HelperRoles,
                                           entries |-> StackEntries, contexts |-> AllContexts,
                                           pushvals |-> PushVals, noops |-> NoopHelpers,
                                           manipkinds |-> {m.k : m \in AllManips}])>>)
ASSUME UniverseS
=============================================================================
