SPECIFICATION Spec
CONSTANTS
  Tier = "Q"
  Known = {"ArgTrailingNewlineDropped"}
  Part = 0
  Parts = 1
INVARIANT GenInv
INVARIANT Laws
CHECK_DEADLOCK FALSE
