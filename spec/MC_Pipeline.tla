--------------------------- MODULE MC_Pipeline ---------------------------
(* Bounded instances of Pipeline: base stores x override sets (<= MaxOv items *)
(* in the two formats) x skip_extract_dump x analysed-before x classifier     *)
(* given/absent x (dump parsed or not); title sets for the save/read-back.    *)
EXTENDS Pipeline, Json, FiniteSetsExt

(* ---------------- tables ---------------- *)
T_PfxNs == ("Template:" :> 10) @@ ("template:" :> 10) @@ ("Module:" :> 828)
T_CanonPfx == ("10" :> "Template:") @@ ("828" :> "Module:")
T_UpperOf == ("z" :> "Z") @@ ("Z" :> "Z") @@ ("q" :> "Q") @@ ("Q" :> "Q")
T_Defaults == << [title |-> <<"Template:", "!">>, body |-> "d1"],
                 [title |-> <<"Template:", "=">>, body |-> "d2"],
                 [title |-> <<"Template:", "((">>, body |-> "d3"],
                 [title |-> <<"Template:", "))">>, body |-> "d4"] >>
T_OkModels == {"wikitext", "Scribunto", "json"}
T_NsByLocal == ("Template" :> 10) @@ ("Module" :> 828)
T_ColonPre == ("Template:" :> "Template") @@ ("template:" :> "template") @@ ("Module:" :> "Module")
              @@ (":b" :> "") @@ ("x:y" :> "x") @@ (":" :> "")
T_ColonLast == ("Template:" :> "Template") @@ ("template:" :> "template") @@ ("Module:" :> "Module")
              @@ (":b" :> "") @@ ("x:y" :> "x") @@ (":" :> "")
T_IncOfBody == ("t1" :> "t1i")
\* the classifier of the harness: PRE in the text, {{name}} calls
T_BodyUses == ("uP" :> << <<"P">> >>) @@ ("uQ" :> << <<"Q">> >>) @@ ("uq" :> << <<"q">> >>)
              @@ ("uT" :> << <<"T">> >>)
T_BodyPre == {"pre"}
T_WinName == (":" :> "__colon__") @@ ("/" :> "__solidus__") @@ ("*" :> "__asterisk__")
             @@ ("?" :> "__questionmark__") @@ ("\"" :> "__quotationmark__")
             @@ ("<" :> "__less-thansign__") @@ (">" :> "__greater-thansign__")
             @@ ("|" :> "__verticalline__")
NoArgs == {}
SelAll == {0, 10, 828}

DevAsIs == {"MainPrefixStrippedOnAdd", "AnalysisKeepsOldMarks"}
DevIdeal == {"MainPrefixStrippedOnAdd"}
DevBackupLate == DevIdeal \cup {"BackupAfterOverrides"}
DevProbeWrites == DevIdeal \cup {"ProbeWrites"}
DevLastColon == DevIdeal \cup {"NsByLastColon"}
DevNoAnalysis == DevIdeal \cup {"AnalysisSkippedAfterTemplate"}
DevPathDrop == DevIdeal \cup {"PathDropsSlashslash"}

CONSTANTS MaxOv, Bases, PoolJ, PoolD, Dumps, Parts, Part
VARIABLES pages,  \* save/read-back configurations only: the pages saved, in database order
          win     \* ... on a Windows partition (invalid characters replaced)

(* ---------------- base stores ---------------- *)
R0(t, b) == Row(t, 0, NoRedirect, b, "wikitext")
RT(t, b) == Row(<<"Template:">> \o t, 10, NoRedirect, b, "wikitext")
RTR(t, to) == Row(<<"Template:">> \o t, 10, <<"Template:">> \o to, NullBody, "wikitext")
RM(t, b) == Row(<<"Module:">> \o t, 828, NoRedirect, b, "Scribunto")

\* P says PRE, Q uses P
Base1 == {R0(<<"Z", "ed">>, "b1"), RT(<<"P">>, "pre"), RT(<<"Q">>, "uP"), RM(<<"M">>, "m1")}
\* ... R redirects to Q, S uses Q
Base2 == Base1 \cup {RTR(<<"R">>, <<"Q">>), RT(<<"S">>, "uQ")}
Base0 == {}
BaseOf(b) == CASE b = "B0" -> Base0 [] b = "B1" -> Base1 [] b = "B2" -> Base2
BasesQ == {"B1", "B2"}
BasesT == {"B0", "B1", "B2"}

(* ---------------- dumps (parsed when not skip_extract_dump) ---------------- *)
DP(t, ns, model, body) == DPage(t, ns, model, NoRedirect, body, Inc(body))
Dump0 == <<>>
\* a new page, a template that says PRE, a page replacing a base page, an unselected one
Dump1 == << DP(<<"D", "ump">>, 0, "wikitext", "b2"),
            DP(<<"Template:", "P">>, 10, "wikitext", "t1"),
            DP(<<"Z", "ed">>, 0, "css", "b3"),
            DP(<<"Z", "ed", "/documentation">>, 0, "wikitext", "b3") >>
DumpOfId(d) == CASE d = "D0" -> Dump0 [] d = "D1" -> Dump1
DumpsQ == {"D0"}
DumpsT == {"D0", "D1"}

(* ---------------- override pools ---------------- *)
J(t, ns, red, pre, body, model) == Item(t, ns, red, pre, body, model, FALSE)
D(t, body, hidden) == Item(t, NoNs, NoRedirect, FALSE, body, "ABSENT", hidden)

CommonTitles ==
  { <<<<"N", "ew">>, "b2">>,                       \* a plain page, new
    <<<<"Z", "ed">>, "b3">>,                       \* a plain page replacing one
    <<<<"Template:", "T">>, "uQ">>,                \* a new template using Q
    <<<<"Template:", "P">>, "b1">>,                \* P no longer says PRE
    <<<<"Template:", "Q">>, "pre">>,               \* Q says PRE itself
    <<<<"Module:", "M">>, "m2">>,                  \* a module replacing one
    <<<<"Template:", "a", ":b">>, "t1">>,          \* two colons, inclusion markup
    <<<<"x:y">>, "b2">>,                           \* a colon, not a namespace
    <<<<"template:", "low">>, "b2">> }             \* not the local name: main namespace
PoolJ_T ==
  {J(x[1], NoNs, NoRedirect, FALSE, x[2], "ABSENT") : x \in CommonTitles} \cup
  { J(<<"Template:", "Rd">>, NoNs, <<"Template:", "Q">>, FALSE, NullBody, "ABSENT"),  \* a redirect
    J(<<"F", "oo">>, 10, NoRedirect, FALSE, "uP", "wikitext"),                        \* namespace_id given
    J(<<"N", "ew">>, NoNs, NoRedirect, TRUE, "b4", "ABSENT"),                         \* need_pre_expand given
    J(<<"Module:", "M">>, NoNs, NoRedirect, FALSE, "m3", "NULL"),                     \* "model": null
    J(<<"Module:", "N">>, NoNs, NoRedirect, FALSE, "m2", "Scribunto"),
    J(<<"Z", "ed">>, 0, NoRedirect, FALSE, "b4", "NULL") }
PoolD_T ==
  {D(x[1], x[2], FALSE) : x \in CommonTitles} \cup
  { D(<<"Template:", "H">>, "pre", TRUE),          \* hidden file holding a template
    D(<<"H", "id">>, "b2", TRUE) }
PoolJ_Q ==
  {J(x[1], NoNs, NoRedirect, FALSE, x[2], "ABSENT") :
     x \in { <<<<"Z", "ed">>, "b3">>, <<<<"Template:", "T">>, "uQ">>, <<<<"Template:", "P">>, "b1">>,
             <<<<"Template:", "a", ":b">>, "t1">> }} \cup
  { J(<<"Template:", "Rd">>, NoNs, <<"Template:", "Q">>, FALSE, NullBody, "ABSENT"),
    J(<<"Module:", "M">>, NoNs, NoRedirect, FALSE, "m3", "NULL"),
    J(<<"N", "ew">>, NoNs, NoRedirect, TRUE, "b4", "ABSENT") }
PoolD_Q ==
  {D(x[1], x[2], FALSE) :
     x \in { <<<<"N", "ew">>, "b2">>, <<<<"Template:", "Q">>, "pre">>, <<<<"Module:", "M">>, "m2">>,
             <<<<"x:y">>, "b2">>, <<<<"template:", "low">>, "b2">> }} \cup
  { D(<<"Template:", "H">>, "pre", TRUE) }

(* ---------------- scenarios ---------------- *)
DistinctKeys(S) == \A a, b \in S : a # b => ItemKey(EffItem("json", a)) # ItemKey(EffItem("json", b))
\* the sources in the order given: a .json file and a directory; a path that does
\* not exist and a file with another suffix are thrown in
SrcsOf(js, ds, order) ==
  LET sj == [fmt |-> "json", items |-> SetToSeq(js)]
      sd == [fmt |-> "dir", items |-> SetToSeq(ds)]
      no == [fmt |-> "missing", items |-> <<>>]
      ot == [fmt |-> "otherfile", items |-> SetToSeq(js)]
  IN IF order = "JD" THEN (IF js = {} THEN <<>> ELSE <<sj>>) \o <<no>> \o (IF ds = {} THEN <<>> ELSE <<sd>>)
     ELSE (IF ds = {} THEN <<>> ELSE <<sd>>) \o <<ot>> \o (IF js = {} THEN <<>> ELSE <<sj>>)

\* <= MaxOv items drawn from the two pools together
Tagged == ({"J"} \X PoolJ) \cup ({"D"} \X PoolD)
Picks == UNION {kSubset(k, Tagged) : k \in 0..MaxOv}
JOf(p) == {x[2] : x \in {y \in p : y[1] = "J"}}
DOf(p) == {x[2] : x \in {y \in p : y[1] = "D"}}
OvSets ==
  {x \in {<<JOf(p[1]), DOf(p[1]), p[2]>> : p \in Picks \X {"JD", "DJ"}} :
     /\ (x[3] = "DJ" => (x[1] # {} /\ x[2] # {}))
     /\ DistinctKeys(x[1]) /\ DistinctKeys(x[2])}

\* marks a store carries when it was analysed earlier
AnalysedMarks(B) == AnalyzeIdeal(B, {})

\* Parts = 2: part 1 = skip_extract_dump; Parts = 4: parts 1, 3
InPart(skip, func) == ((IF func THEN 2 ELSE 0) + (IF skip THEN 1 ELSE 0)) % Parts = Part

ScenOK(b, an, skip, d) == (skip => d = "D0") /\ (b = "B0" => ~an)
InitWith(b, an, skip, func, d, hasOv, srcs) ==
  /\ PInit(BaseOf(b), IF an THEN AnalysedMarks(BaseOf(b)) ELSE {}, DumpOfId(d), SelAll,
           Scn(skip, func, hasOv, srcs))
  /\ pages = <<>> /\ win = FALSE
MCInit ==
  \E b \in Bases, an \in BOOLEAN, skip \in BOOLEAN, func \in BOOLEAN, d \in Dumps :
    /\ ScenOK(b, an, skip, d) /\ InPart(skip, func)
    /\ \/ \E x \in OvSets : InitWith(b, an, skip, func, d, TRUE, SrcsOf(x[1], x[2], x[3]))
       \/ InitWith(b, an, skip, func, d, FALSE, <<>>)
\* one named action per pipeline step (per-action coverage)
M_PParse == PParse /\ UNCHANGED <<pages, win>>
M_PDefaults == PDefaults /\ UNCHANGED <<pages, win>>
M_PEnter == PEnter /\ UNCHANGED <<pages, win>>
M_ProbeStep == ProbeStep /\ UNCHANGED <<pages, win>>
M_ABackup == ABackup /\ UNCHANGED <<pages, win>>
M_AWrite == AWrite /\ UNCHANGED <<pages, win>>
M_ALateBackup == ALateBackup /\ UNCHANGED <<pages, win>>
M_AAnalyze == AAnalyze /\ UNCHANGED <<pages, win>>
M_BAnalyze == BAnalyze /\ UNCHANGED <<pages, win>>
M_BBackup == BBackup /\ UNCHANGED <<pages, win>>
M_BWrite == BWrite /\ UNCHANGED <<pages, win>>
M_CAnalyze == CAnalyze /\ UNCHANGED <<pages, win>>
M_FinalCommit == FinalCommit /\ UNCHANGED <<pages, win>>
MCNext == M_PParse \/ M_PDefaults \/ M_PEnter \/ M_ProbeStep \/ M_ABackup \/ M_AWrite \/ M_ALateBackup \/ M_AAnalyze \/ M_BAnalyze \/ M_BBackup \/ M_BWrite \/ M_CAnalyze \/ M_FinalCommit
mcvars == <<pvars, pages, win>>
MCSpec == MCInit /\ [][MCNext]_mcvars /\ WF_mcvars(MCNext)
Terminates == <>PDone

\* every one of the four paths of analyze_and_overwrite_pages is taken by some scenario
\* (checked by the harness on the generator's output, and by action coverage here)

(* ---------------- save / read back ---------------- *)
CONSTANTS TitleU, MaxPages, Wins

\* single characters; "T" stands for an ordinary letter
C0(s) == Row(s, 0, NoRedirect, "b1", "wikitext")
CT(s) == Row(<<"Template:">> \o s, 10, NoRedirect, "t1i", "wikitext")
CM(s) == Row(<<"Module:">> \o s, 828, NoRedirect, "m1", "Scribunto")
Red0(s, to) == Row(s, 0, to, NullBody, "wikitext")
\* titles on which the path mapping is meant to be injective and the tree readable
TitlesGood ==
  { C0(<<"a">>), C0(<<"a", "b">>), C0(<<"a", "b", "c">>), C0(<<"a", "/", "b">>), C0(<<"a", ":", "b">>),
    C0(<<"a", "*">>), C0(<<"?">>), C0(<<"\"", "a">>), C0(<<"<", ">">>), C0(<<"a", "|", "b">>),
    C0(<<"a", "/", "/", "b">>), C0(<<"a", ".", ".", "b">>), C0(<<"a", ".", "b">>), C0(<<"a", " ", "b">>),
    C0(<<"a", "b", "/", "c">>), C0(<<"a", "b", "/", "/", "c">>), C0(<<"a", "/", "/">>),
    CT(<<"a">>), CT(<<"a", "/", "b">>), CT(<<"a", ":", "b">>), CT(<<"a", "/", "/", "b">>), CT(<<".", ".", "a">>),
    CT(<<"*">>), CM(<<"a">>), CM(<<"a", "/", "b">>), CM(<<"a", "b">>),
    Red0(<<"r">>, <<"a">>) }
\* saved under a name starting with "." (never read back)
TitlesDot == { C0(<<"/">>), C0(<<".", "a">>), CT(<<".", "a">>), C0(<<"a", "/", ".", "b">>), C0(<<"a", "/">>), C0(<<".">>) }
\* colliding with a good title
TitlesClash == { C0(<<"/", "a">>), C0(<<"a", "/", ".", "/", "b">>) }
TitlesAll == TitlesGood \cup TitlesDot \cup TitlesClash
\* quick: fewer titles of each kind
TitlesQ == { C0(<<"a">>), C0(<<"a", "b", "c">>), C0(<<"a", "/", "b">>), C0(<<"a", ":", "b">>), C0(<<"?">>), C0(<<"\"", "a">>),
             C0(<<"a", "/", "/", "b">>), C0(<<"a", ".", ".", "b">>), C0(<<"a", " ", "b">>), C0(<<"a", "b", "/", "c">>),
             CT(<<"a">>), CT(<<"a", "/", "b">>), CT(<<"a", ":", "b">>), CT(<<".", ".", "a">>), CM(<<"a", "/", "b">>),
             Red0(<<"r">>, <<"a">>),
             C0(<<"/">>), C0(<<".", "a">>), CT(<<".", "a">>), C0(<<"a", "/">>),
             C0(<<"/", "a">>), C0(<<"a", "/", ".", "/", "b">>) }
WinNo == {FALSE}
WinBoth == BOOLEAN

PageSeqs == UNION {{f \in [1..n -> TitleU] : \A i, j \in 1..n : i # j => f[i] # f[j]} : n \in 1..MaxPages}

SInit == pages \in PageSeqs /\ win \in Wins /\ PInit({}, {}, <<>>, {}, Scn(FALSE, FALSE, FALSE, <<>>))
SNext == UNCHANGED mcvars
SSpec == SInit /\ [][SNext]_mcvars
P4_Injective == PathsInjective(pages, win)
P4_ComesBack == ComesBack(pages, win)
P4_NothingHidden == \A i \in 1..Len(pages) : ~NameHidden(pages[i].title, pages[i].ns, win)
=============================================================================
