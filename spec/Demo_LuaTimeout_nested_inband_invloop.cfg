SPECIFICATION Spec
CONSTANTS
  Dev <- DevInBand
  B = 3
  RecMax = 1
  Bodies <- BodiesAll
  Kinds <- KindsAll
  MaxDepth = 1
  Progs <- P_invloop
PROPERTY AbortedAfterDeadline
CHECK_DEADLOCK FALSE
