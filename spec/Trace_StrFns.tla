---------------------------- MODULE Trace_StrFns ----------------------------
(* Validates recorded calls of the real string parser functions against the *)
(* reference definitions of StrFns.                                          *)
(* TRACE_FILE: {"lower": {atom: atom}, "upper": {atom: atom},                *)
(*   "events": [{"fn": "#sub", "args": [{"k": "s"|"i", "s": [...], "i": n}], *)
(*               "out": {"k": "s"|"i", "s": [...], "i": n}}, ...]}           *)
(* (an argument {"k": "n", "s": [atoms]} is an integer parameter written as  *)
(*  that numeral)                                                            *)
EXTENDS Integers, Sequences, FiniteSets, TLC, Json, IOUtils

TraceFile == JsonDeserialize(IOEnv.TRACE_FILE)
Events == TraceFile.events
T_Lower == TraceFile.lower
T_Upper == TraceFile.upper
NoDev == {}

VARIABLES l, bad
S == INSTANCE StrFns WITH LowerOf <- T_Lower, UpperOf <- T_Upper, Dev <- NoDev
tvars == <<l, bad>>

ArgS(e, i) == IF i <= Len(e.args) THEN e.args[i].s ELSE <<>>
\* an integer parameter recorded as the numeral that was written (k = "n": leading zeros, blanks) is read by the reference
ArgI(e, i) == IF i <= Len(e.args) THEN (IF e.args[i].k = "n" THEN S!IntArg(e.args[i].s) ELSE e.args[i].i) ELSE 0
Mode(e) == IF Len(e.args) >= 2 THEN e.args[2].s[1] ELSE "QUERY"

Ref(e) ==
  CASE e.fn = "#len" -> S!StrLen(ArgS(e, 1))
    [] e.fn = "#pos" -> S!Pos(ArgS(e, 1), ArgS(e, 2), ArgI(e, 3))
    [] e.fn = "#rpos" -> S!RPos(ArgS(e, 1), ArgS(e, 2))
    [] e.fn = "#sub" -> S!Sub(ArgS(e, 1), ArgI(e, 2), ArgI(e, 3))
    [] e.fn = "#replace" -> S!Replace(ArgS(e, 1), ArgS(e, 2), ArgS(e, 3))
    [] e.fn = "#explode" -> S!Explode(ArgS(e, 1), ArgS(e, 2), ArgI(e, 3), ArgI(e, 4))
    [] e.fn = "#titleparts" -> S!TitleParts(ArgS(e, 1), ArgI(e, 2), ArgI(e, 3))
    [] e.fn = "padleft" -> S!PadLeft(ArgS(e, 1), ArgI(e, 2), IF Len(e.args) >= 3 THEN ArgS(e, 3) ELSE <<"0">>)
    [] e.fn = "padright" -> S!PadRight(ArgS(e, 1), ArgI(e, 2), IF Len(e.args) >= 3 THEN ArgS(e, 3) ELSE <<"0">>)
    [] e.fn = "lc" -> S!Lc(ArgS(e, 1))
    [] e.fn = "uc" -> S!Uc(ArgS(e, 1))
    [] e.fn = "lcfirst" -> S!LcFirst(ArgS(e, 1))
    [] e.fn = "ucfirst" -> S!UcFirst(ArgS(e, 1))
    [] e.fn = "plural" -> S!Plural(ArgI(e, 1), ArgS(e, 2), ArgS(e, 3))
    [] e.fn = "urlencode" -> S!UrlEncode(ArgS(e, 1), Mode(e))
    [] e.fn = "#urldecode" -> S!UrlDecode(ArgS(e, 1))

Same(a, b) == a.k = b.k /\ (IF a.k = "i" THEN a.i = b.i ELSE a.s = b.s)

TInit == l = 1 /\ bad = <<>>
TNext == /\ l <= Len(Events)
         /\ LET e == Events[l] r == Ref(e) IN
            bad' = IF Same(r, e.out) THEN bad ELSE Append(bad, [i |-> l, expected |-> r])
         /\ l' = l + 1
TSpec == TInit /\ [][TNext]_tvars
Verdict == (l = Len(Events) + 1) => PrintT(<<"VERDICT", ToJson([consumed |-> l - 1, bad |-> bad])>>)
Accepted == TLCGet("stats").diameter = Len(Events) + 1
=============================================================================
