SPECIFICATION Spec
CONSTANTS
  Dev <- DevAsBuilt
  MaxLen = 3
  KindSet <- AllKinds
  Shape = "all"
INVARIANT NonInterference
CHECK_DEADLOCK FALSE
