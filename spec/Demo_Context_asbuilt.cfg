SPECIFICATION Spec
CONSTANTS
  Dev <- DevAsBuilt
  MaxLen = 3
  KindSet <- AllKinds
INVARIANT NonInterference
CHECK_DEADLOCK FALSE
