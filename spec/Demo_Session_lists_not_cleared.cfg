SPECIFICATION Spec
CONSTANTS
  Dev <- DevListsNotCleared
  Titles <- TitlesOne
  Sections <- SecTwo
  Subsections <- SubThree
  EmitSet <- EmitTwoKinds
  ExpandTexts <- ExpandTables
  ParseTexts <- NoText
  Markers <- MarkersNone
  MaxMsgs = 2
  MaxMarkers = 4
INVARIANT CleanAfterStartPage
CHECK_DEADLOCK FALSE
