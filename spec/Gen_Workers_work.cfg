SPECIFICATION GSpec
CONSTANTS
  Procs <- P2
  Dev <- DevAsIs
  Scenarios <- ScnAll
  Focus = "work"
INVARIANT GenInv
INVARIANT TxnLockAgree
INVARIANT NoStaleSideFile
INVARIANT DoneMeansCommitted
CHECK_DEADLOCK FALSE
