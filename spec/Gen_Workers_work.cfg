SPECIFICATION GSpec
CONSTANTS
  Procs <- P2
  Dev <- DevAsIs
  Scenarios <- ScnAll
  Focus = "work"
INVARIANT GenInv
CHECK_DEADLOCK FALSE
