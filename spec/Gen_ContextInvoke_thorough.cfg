SPECIFICATION Spec
CONSTANTS
  Tier = "thorough"
INVARIANT GenInv
CHECK_DEADLOCK FALSE
