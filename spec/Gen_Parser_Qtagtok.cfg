SPECIFICATION Spec
CONSTANTS
  Universe = "tagtok"
  MaxLen = 3
INVARIANT MachineOK
CHECK_DEADLOCK FALSE
