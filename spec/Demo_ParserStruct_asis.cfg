SPECIFICATION Spec
CONSTANTS
  Universe = "GQ"
  Part = 0
  Parts = 64
  Known = {}
  Tags <- TagsFromFile
INVARIANT DemoAsIs
CHECK_DEADLOCK FALSE
