---------------------------- MODULE SandboxGate ----------------------------
(* The GATE on the Lua-Python bridge (property C06), as a state machine.    *)
(*                                                                          *)
(* SandboxReach treats the object graph as a constant: an edge exists or it *)
(* does not.  That is only right when the thing that decides an edge has no *)
(* memory.  The attribute edges of Python objects are decided by a piece of *)
(* code that runs on EVERY lookup a module makes (attribute_filter of the   *)
(* LuaRuntime, luaexec.initialize_lua): a lookup is a move of the attacker  *)
(* even when it yields nothing, because it may change what a LATER lookup   *)
(* answers.  This module models a runtime as the history of lookups made in *)
(* it:                                                                      *)
(*                                                                          *)
(*   ask  = [o, n, m, b]   object, attribute name, mode get/set, and where  *)
(*                         the lookup is made relative to the previous one  *)
(*                         (same invocation / a later #invoke / a later     *)
(*                         page of the same context)                        *)
(*   gate = filter_attribute_access, test by test (partial? underscore?)    *)
(*   st   = [memo, store]  whatever the gate remembers (nothing, in the     *)
(*                         design) and the attributes the module has set    *)
(*                         itself on host objects that accept it            *)
(*                                                                          *)
(* Property: whatever the history, no lookup hands out a forbidden value    *)
(* (GateConfined); declarative reference: the verdict of every lookup is    *)
(* the pure function of (object, name) of the design (VerdictIsPure), and   *)
(* every answer is the answer the same lookup gets as the very first lookup *)
(* of a fresh runtime, except for values the module stored itself           *)
(* (AnswersAsDirect).                                                       *)
(*                                                                          *)
(* Deviation switches (dev): the shapes a "remembering" gate can take       *)
(*   MemoByName        first verdict for a NAME reused for every object     *)
(*   MemoByObject      first verdict for an OBJECT reused for every name    *)
(*   MemoPerInvocation (modifier) the memo is dropped between invocations   *)
(* The universe (objects with kind and lifetime, names, what getattr of the *)
(* host object would return, which objects accept new attributes) is a      *)
(* CONSTANT: written by hand for the design-level instance                  *)
(* (MC_SandboxGate), read from the live sandbox for the conformance runs    *)
(* (Gen_SandboxGate, Trace_SandboxGate).                                    *)
EXTENDS Naturals, Sequences, FiniteSets, TLC

CONSTANTS
  Objs,      \* set of [id, kind, scope]: kind "partial" | "pyfunc"; scope "runtime" | "invoke" (frame closures are re-created per #invoke)
  Names,     \* set of [n, under]: under = the name starts with an underscore
  Facts,     \* set of [o, n, cls]: getattr(o, n) of the host object exists; cls = "" harmless, else the forbidden class it hands out
  Writable,  \* ids of objects that accept new attributes (have a __dict__)
  Modes,     \* subset of {"get", "set"}
  Bounds,    \* subset of {"same", "invoke", "page"}
  MaxLen,    \* bound on the number of lookups in one runtime
  Dev        \* deviation switches of the state machine below

Obj(id) == CHOOSE x \in Objs : x.id = id
Name(n) == CHOOSE x \in Names : x.n = n
FactOf(o, n) == {f \in Facts : f.o = o /\ f.n = n}

(* ---- filter_attribute_access(obj, attr_name, is_setting), test by test ---- *)
DeniedAsPartial(a) == Obj(a.o).kind = "partial"     \* helpers are partials over the context
DeniedAsPrivate(a) == Name(a.n).under               \* underscore names
Pure(a) == ~DeniedAsPartial(a) /\ ~DeniedAsPrivate(a)   \* is_setting plays no role

St0 == [memo |-> {}, store |-> {}]

Memoising(dev) == dev \cap {"MemoByName", "MemoByObject"} # {}
Key(dev, a) == IF "MemoByName" \in dev THEN <<"n", a.n>>
               ELSE IF "MemoByObject" \in dev THEN <<"o", a.o>> ELSE <<"-", "-">>
Remembered(dev, st, a) == {e \in st.memo : e.key = Key(dev, a)}

Verdict(dev, st, a) ==
  IF Memoising(dev) /\ Remembered(dev, st, a) # {}
  THEN (CHOOSE e \in Remembered(dev, st, a) : TRUE).ok
  ELSE Pure(a)

(* what happens between two lookups that are not made in the same invocation: *)
(* objects that live for one invocation are gone (and what was stored on them) *)
Cross(dev, st, a) ==
  IF a.b = "same" THEN st
  ELSE [memo  |-> IF "MemoPerInvocation" \in dev THEN {}
                  ELSE {e \in st.memo : ~(e.key[1] = "o" /\ Obj(e.key[2]).scope = "invoke")},
        store |-> {p \in st.store : Obj(p[1]).scope = "runtime"}]

Ans(r, c) == [r |-> r, cls |-> c]

(* the answer of the bridge: the gate first, then getattr / setattr of the host object *)
Answer(dev, st, a) ==
  IF ~Verdict(dev, st, a) THEN Ans("denied", "")
  ELSE IF a.m = "set"
       THEN IF a.o \in Writable /\ FactOf(a.o, a.n) = {} THEN Ans("setok", "") ELSE Ans("seterr", "")
  ELSE IF <<a.o, a.n>> \in st.store THEN Ans("own", "")
  ELSE IF FactOf(a.o, a.n) # {} THEN Ans("val", (CHOOSE f \in FactOf(a.o, a.n) : TRUE).cls)
  ELSE Ans("absent", "")

After(dev, st, a, ans) ==
  [memo  |-> IF Memoising(dev) /\ Remembered(dev, st, a) = {}
             THEN st.memo \cup {[key |-> Key(dev, a), ok |-> Pure(a)]} ELSE st.memo,
   store |-> IF ans.r = "setok" THEN st.store \cup {<<a.o, a.n>>} ELSE st.store]

Leak(ans) == ans.r = "val" /\ ans.cls # ""

(* functional form: the answers a whole history gets (used by the generator / trace replay) *)
RECURSIVE RunFrom(_, _, _, _)
RunFrom(dev, st, asks, i) ==
  IF i > Len(asks) THEN <<>>
  ELSE LET s1 == Cross(dev, st, asks[i])
           an == Answer(dev, s1, asks[i])
       IN <<an>> \o RunFrom(dev, After(dev, s1, asks[i], an), asks, i + 1)
Run(dev, asks) == RunFrom(dev, St0, asks, 1)

(* ------------------------------------------------------------------ *)
(* the state machine                                                   *)
(* ------------------------------------------------------------------ *)
VARIABLES
  gst,    \* [memo, store]
  hist    \* sequence of [ask, ok, ans]: every lookup made in this runtime so far

sgvars == <<gst, hist>>

AsksAt(k) == {[o |-> x.id, n |-> y.n, m |-> m, b |-> b] :
                x \in Objs, y \in Names, m \in Modes, b \in (IF k = 1 THEN {"same"} ELSE Bounds)}

SGInit == gst = St0 /\ hist = <<>>

Lookup(a) ==
  LET s1 == Cross(Dev, gst, a)
      an == Answer(Dev, s1, a)
  IN /\ hist' = Append(hist, [ask |-> a, ok |-> Verdict(Dev, s1, a), ans |-> an])
     /\ gst' = After(Dev, s1, a, an)

SGNext == Len(hist) < MaxLen /\ \E a \in AsksAt(Len(hist) + 1) : Lookup(a)
SGSpec == SGInit /\ [][SGNext]_sgvars

AsksOf(h) == [i \in DOMAIN h |-> h[i].ask]

(* ---- the property ---- *)
GateConfined == \A i \in DOMAIN hist : ~Leak(hist[i].ans)

(* ---- declarative reference ---- *)
VerdictIsPure == \A i \in DOMAIN hist : hist[i].ok = Pure(hist[i].ask)
AnswersAsDirect ==
  \A i \in DOMAIN hist :
    \/ hist[i].ans.r = "own"
    \/ hist[i].ans = Answer({}, St0, hist[i].ask)
(* and the two formulations agree *)
RunAgrees == [i \in DOMAIN hist |-> hist[i].ans] = Run(Dev, AsksOf(hist))
=============================================================================
