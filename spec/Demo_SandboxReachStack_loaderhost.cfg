SPECIFICATION STSpec
CONSTANTS
  Entries <- K_Entries
  Shapes <- K_Shapes
  Bounds <- K_Bounds
  MaxLen = 3
  MaxLoads = 2
  Dev <- KDevLoader
  Contexts <- K_Contexts
  Manips <- K_Manips
INVARIANT StackConfined
CHECK_DEADLOCK FALSE
