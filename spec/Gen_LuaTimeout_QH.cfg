SPECIFICATION GSpec
CONSTANTS
  Dev <- DevIdeal
  B = 3
  RecMax = 1
  Bodies <- BodiesHelper
  Kinds <- KindsAll
  MaxDepth = 1
  Progs <- ProgramsHelpers
INVARIANT GenInv
CHECK_DEADLOCK FALSE
