------------------------------ MODULE StrFns ------------------------------
(* Reference definitions of the string parser functions, over strings that  *)
(* are sequences of atoms (one atom = one character; "SP" is the blank):    *)
(*   #len #pos #rpos #sub #replace #explode #titleparts padleft padright    *)
(*   lc uc lcfirst ucfirst plural urlencode #urldecode                      *)
(* per mediawiki.org Extension:ParserFunctions/String functions,            *)
(* Help:Extension:ParserFunctions (#titleparts) and Help:Magic words        *)
(* (padleft, padright, lc.., plural, urlencode).  Every parameter of a      *)
(* parser function is trimmed before the function sees it.                  *)
(*                                                                          *)
(* Where the code is known to deviate and no test-suite-compatible repair   *)
(* exists, the code's algorithm is transcribed next to the reference with   *)
(* the deviation as a switch of Dev (TitlePartsCode).                        *)
EXTENDS Integers, Sequences, FiniteSets, TLC

CONSTANTS LowerOf,   \* atom -> lower-case atom (atoms not in the domain are caseless)
          UpperOf,   \* atom -> upper-case atom
          Dev

SP == "SP"
Min(a, b) == IF a < b THEN a ELSE b
Max(a, b) == IF a > b THEN a ELSE b

RECURSIVE LTrim(_), RTrim(_)
LTrim(s) == IF Len(s) > 0 /\ s[1] = SP THEN LTrim(Tail(s)) ELSE s
RTrim(s) == IF Len(s) > 0 /\ s[Len(s)] = SP THEN RTrim(SubSeq(s, 1, Len(s) - 1)) ELSE s
Trim(s) == RTrim(LTrim(s))

\* results: a string or an integer (printed in decimal)
RS(s) == [k |-> "s", s |-> s, i |-> 0]
RI(i) == [k |-> "i", s |-> <<>>, i |-> i]

(* ---- integer parameters written as numerals ---- *)
\* The offsets / lengths / counts / positions of #sub #pos #explode #titleparts padleft padright are
\* integers handed over as TEXT.  Documented: the parameter is trimmed and is a decimal integer
\* numeral, digits with an optional "-" (IntArgPlain); leading zeros do not change the number
\* ("007" is seven, "-01" is minus one, "00" and "-0" are zero).  For every other text the
\* documentation is silent; the reference then reads it the way PHP's intval() does -- optional sign,
\* the leading run of digits, 0 if there is none -- and a call with such a parameter is outside the
\* documented domain (strict = FALSE in MC_StrFns: a difference is drift).
DigitVal == ("0" :> 0) @@ ("1" :> 1) @@ ("2" :> 2) @@ ("3" :> 3) @@ ("4" :> 4) @@ ("5" :> 5) @@ ("6" :> 6) @@
            ("7" :> 7) @@ ("8" :> 8) @@ ("9" :> 9)
IsDigitAtom(a) == a \in DOMAIN DigitVal
RECURSIVE DigitRun(_)        \* the leading run of digits
DigitRun(s) == IF Len(s) > 0 /\ IsDigitAtom(s[1]) THEN <<s[1]>> \o DigitRun(Tail(s)) ELSE <<>>
RECURSIVE Positional(_, _)   \* positional notation, most significant digit first
Positional(ds, acc) == IF Len(ds) = 0 THEN acc ELSE Positional(Tail(ds), 10 * acc + DigitVal[ds[1]])
IntArg(s0) ==
  LET s == Trim(s0)
      signed == Len(s) > 0 /\ s[1] \in {"-", "+"}
      body == IF signed THEN Tail(s) ELSE s
      v == Positional(DigitRun(body), 0)
  IN IF signed /\ s[1] = "-" THEN -v ELSE v
IntArgPlain(s0) ==
  LET s == Trim(s0)
      body == IF Len(s) > 0 /\ s[1] = "-" THEN Tail(s) ELSE s
  IN Len(body) > 0 /\ DigitRun(body) = body
\* the canonical numeral of an integer
DigitAtoms == <<"0", "1", "2", "3", "4", "5", "6", "7", "8", "9">>
RECURSIVE Dec(_)
Dec(n) == IF n < 10 THEN <<DigitAtoms[n + 1]>> ELSE Dec(n \div 10) \o <<DigitAtoms[(n % 10) + 1]>>
Canon(v) == IF v < 0 THEN <<"-">> \o Dec(-v) ELSE Dec(v)

(* ---- #len ---- *)
StrLen(s) == RI(Len(Trim(s)))

(* ---- #pos / #rpos ---- *)
\* an empty search term means a single blank
Needle(n) == IF Trim(n) = <<>> THEN <<SP>> ELSE Trim(n)
\* n occurs in s at 0-based position i
Occurs(s, n, i) == i >= 0 /\ i + Len(n) <= Len(s) /\ SubSeq(s, i + 1, i + Len(n)) = n
Positions(s, n) == {i \in 0..Len(s) : Occurs(s, n, i)}
SetMin(S) == CHOOSE m \in S : \A y \in S : m <= y
SetMax(S) == CHOOSE m \in S : \A y \in S : m >= y

\* first position at or after the offset; empty string if none
Pos(s, n, off) ==
  LET P == {i \in Positions(Trim(s), Needle(n)) : i >= off} IN
  IF P = {} THEN RS(<<>>) ELSE RI(SetMin(P))
\* last position; -1 if none
RPos(s, n) ==
  LET P == Positions(Trim(s), Needle(n)) IN
  IF P = {} THEN RI(-1) ELSE RI(SetMax(P))

(* ---- #sub (PHP mb_substr) ---- *)
Sub(s0, start, len) ==
  LET s == Trim(s0)
      L == Len(s)
      st == IF start < 0 THEN Max(0, L + start) ELSE Min(start, L)
      en == IF len = 0 THEN L ELSE IF len > 0 THEN Min(L, st + len) ELSE L + len
  IN RS(IF en <= st THEN <<>> ELSE SubSeq(s, st + 1, en))

(* ---- #replace (all non-overlapping occurrences, left to right) ---- *)
RECURSIVE Repl(_, _, _)
Repl(s, n, r) ==
  IF Len(s) < Len(n) THEN s
  ELSE IF SubSeq(s, 1, Len(n)) = n THEN r \o Repl(SubSeq(s, Len(n) + 1, Len(s)), n, r)
  ELSE <<s[1]>> \o Repl(Tail(s), n, r)
Replace(s, n, r) == RS(Repl(Trim(s), Needle(n), Trim(r)))

(* ---- #explode ---- *)
\* pieces of s between occurrences of d (d non-empty), like PHP explode
RECURSIVE SplitAcc(_, _, _)
SplitAcc(s, d, cur) ==
  IF Len(s) = 0 THEN <<cur>>
  ELSE IF Len(s) >= Len(d) /\ SubSeq(s, 1, Len(d)) = d
       THEN <<cur>> \o SplitAcc(SubSeq(s, Len(d) + 1, Len(s)), d, <<>>)
       ELSE SplitAcc(Tail(s), d, Append(cur, s[1]))
Split(s, d) == SplitAcc(s, d, <<>>)
RECURSIVE Join(_, _)
Join(ps, d) == IF Len(ps) = 0 THEN <<>>
               ELSE IF Len(ps) = 1 THEN ps[1]
               ELSE ps[1] \o d \o Join(Tail(ps), d)
\* limit > 0: at most limit pieces, the last one holding the rest
Limited(ps, d, lim) ==
  IF lim > 0 /\ Len(ps) > lim
  THEN SubSeq(ps, 1, lim - 1) \o <<Join(SubSeq(ps, lim, Len(ps)), d)>>
  ELSE ps
\* lim = 0 stands for "no limit parameter"
Explode(s, d, pos, lim) ==
  LET ps == Limited(Split(Trim(s), Needle(d)), Needle(d), lim)
      p == IF pos < 0 THEN Len(ps) + pos ELSE pos
  IN RS(IF p < 0 \/ p >= Len(ps) THEN <<>> ELSE ps[p + 1])

(* ---- #titleparts ---- *)
\* PHP array_slice(bits, offset, length) with length = 0 meaning "to the end"
Slice(bits, offset, length) ==
  LET L == Len(bits)
      st == IF offset < 0 THEN Max(0, L + offset) ELSE Min(offset, L)
      en == IF length = 0 THEN L ELSE IF length > 0 THEN Min(L, st + length) ELSE L + length
  IN IF en <= st THEN <<>> ELSE SubSeq(bits, st + 1, en)
\* segments are separated by "/" only; the first segment is number 1 (0 = 1);
\* negative values count from the end
TitleParts(s, num, first) ==
  LET bits == Split(Trim(s), <<"/">>)
      off == IF first > 0 THEN first - 1 ELSE first
  IN RS(Join(Slice(bits, off, num), <<"/">>))

\* transcription of titleparts_fn (parserfns.py).  re.split(r"([:/])", t)
\* keeps the separators as list elements; here: the list of segments and the
\* list of the separators that followed them.
IsSepCode(a, D) == a = "/" \/ ("TitlepartsSplitsOnColon" \in D /\ a = ":")
RECURSIVE SegAcc(_, _, _, _, _)
\* -> [segs |-> <<..>>, seps |-> <<..>>]
SegAcc(s, cur, segs, seps, D) ==
  IF Len(s) = 0 THEN [segs |-> Append(segs, cur), seps |-> seps]
  ELSE IF IsSepCode(s[1], D) THEN SegAcc(Tail(s), <<>>, Append(segs, cur), Append(seps, s[1]), D)
  ELSE SegAcc(Tail(s), Append(cur, s[1]), segs, seps, D)
RECURSIVE JoinSeps(_, _, _, _)
JoinSeps(segs, seps, i, j) ==      \* segments i..j-1 (1-based, j exclusive) with their separators
  IF i >= j \/ i > Len(segs) THEN <<>>
  ELSE segs[i] \o (IF i + 1 < j /\ i + 1 <= Len(segs) THEN <<seps[i]>> ELSE <<>>) \o JoinSeps(segs, seps, i + 1, j)
\* D = the deviations switched on
TitlePartsCodeD(s, num, first0, D) ==
  LET t == SegAcc(Trim(s), <<>>, <<>>, <<>>, D)
      np == Len(t.segs)
      \* as-is: "first" is used as a 0-based index
      f0 == IF "TitlepartsFirstZeroBased" \in D THEN first0
            ELSE IF first0 > 0 THEN first0 - 1 ELSE first0
      first == IF f0 < 0 THEN Max(0, np + f0) ELSE IF f0 > np THEN np ELSE f0
      \* as-is: a negative count is turned into a count from the *start* of the
      \* title, and a resulting count of 0 makes the Python slice end at -1
      asisneg == "TitlepartsNegativeCountFromStart" \in D
      cnt == IF num = 0 THEN np - first
             ELSE IF num > 0 THEN num
             ELSE IF asisneg THEN Max(0, np + num) ELSE Max(0, np + num - first)
      \* Python: parts[2*first : 2*(first+cnt)-1] over the interleaved list of 2*np-1 items
      endx == IF asisneg /\ num # 0 /\ cnt = 0 /\ first = 0 THEN np - 1   \* slice [0:-1] drops the last segment
              ELSE Min(np, first + cnt)
      trailing == asisneg /\ num # 0 /\ cnt = 0 /\ first = 0 /\ np >= 2   \* ...but keeps its separator
  IN RS(JoinSeps(t.segs, t.seps, first + 1, endx + 1)
        \o (IF trailing THEN <<t.seps[np - 1]>> ELSE <<>>))
TitlePartsCode(s, num, first0) == TitlePartsCodeD(s, num, first0, Dev)

(* ---- padleft / padright ---- *)
RECURSIVE Cyc(_, _, _)
Cyc(p, k, i) == IF k = 0 THEN <<>> ELSE <<p[((i - 1) % Len(p)) + 1]>> \o Cyc(p, k - 1, i + 1)
\* padding repeated cyclically and truncated to exactly the missing length
Padding(s, n, p) == IF Len(p) = 0 \/ n <= Len(s) THEN <<>> ELSE Cyc(p, n - Len(s), 1)
PadLeft(s, n, p) == RS(Padding(Trim(s), n, Trim(p)) \o Trim(s))
PadRight(s, n, p) == RS(Trim(s) \o Padding(Trim(s), n, Trim(p)))

(* ---- case ---- *)
Lo(a) == IF a \in DOMAIN LowerOf THEN LowerOf[a] ELSE a
Up(a) == IF a \in DOMAIN UpperOf THEN UpperOf[a] ELSE a
Lc(s) == RS([i \in 1..Len(Trim(s)) |-> Lo(Trim(s)[i])])
Uc(s) == RS([i \in 1..Len(Trim(s)) |-> Up(Trim(s)[i])])
LcFirst(s) == LET t == Trim(s) IN RS(IF Len(t) = 0 THEN t ELSE <<Lo(t[1])>> \o Tail(t))
UcFirst(s) == LET t == Trim(s) IN RS(IF Len(t) = 0 THEN t ELSE <<Up(t[1])>> \o Tail(t))

(* ---- plural (English rule: singular exactly for 1) ---- *)
Plural(n, one, many) ==
  IF "PluralComparesStringWithInt" \in Dev THEN RS(Trim(many))    \* as-is: "1" == 1 is never true
  ELSE RS(IF n = 1 THEN Trim(one) ELSE Trim(many))

(* ---- urlencode / #urldecode: an ASCII table only ---- *)
\* QUERY (default): blank -> "+";  PATH: blank -> %20;  WIKI: blank -> "_",
\* "/" and ":" kept.  Letters, digits, "-", "_", "." are never encoded.
EncTable ==
  ("SP" :> <<"%20">>) @@ ("/" :> <<"%2F">>) @@ (":" :> <<"%3A">>) @@ ("&" :> <<"%26">>) @@
  ("=" :> <<"%3D">>) @@ ("?" :> <<"%3F">>) @@ ("%" :> <<"%25">>) @@ ("+" :> <<"%2B">>)
EncAtom(a, mode) ==
  IF a \notin DOMAIN EncTable THEN <<a>>
  ELSE IF a = SP THEN (CASE mode = "QUERY" -> <<"+">> [] mode = "WIKI" -> <<"_">> [] OTHER -> <<"%20">>)
  ELSE IF mode = "WIKI" /\ a \in {"/", ":"} THEN <<a>>
  ELSE EncTable[a]
RECURSIVE EncSeq(_, _)
EncSeq(s, mode) == IF Len(s) = 0 THEN <<>> ELSE EncAtom(s[1], mode) \o EncSeq(Tail(s), mode)
UrlEncode(s, mode) == RS(EncSeq(Trim(s), mode))
\* decoding an encoded atom sequence ("+" and every %XX of the table)
DecAtom(a) == IF a = "+" THEN SP
              ELSE IF \E k \in DOMAIN EncTable : EncTable[k] = <<a>>
                   THEN CHOOSE k \in DOMAIN EncTable : EncTable[k] = <<a>>
                   ELSE a
UrlDecode(s) == RS([i \in 1..Len(Trim(s)) |-> DecAtom(Trim(s)[i])])
=============================================================================
