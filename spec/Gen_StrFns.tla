---------------------------- MODULE Gen_StrFns ----------------------------
(* Case generation for StrFns: every call of the bounded instance with the  *)
(* reference result, as JSON.  For #titleparts the as-is transcription      *)
(* (all known deviations on) and its ablations (one deviation off) are      *)
(* printed too, so that the harness can tell which named deviations explain  *)
(* an observed difference.                                                   *)
EXTENDS MC_StrFns, Json

TPDevs == DevTitleparts
TPAsIs(D) == TitlePartsCodeD(A(1).s, IF NArgs >= 2 THEN A(2).i ELSE 0, IF NArgs >= 3 THEN A(3).i ELSE 0, D)
Emit ==
  IsCall =>
    IF x.fn = "#titleparts"
    THEN PrintT(<<"CASE", ToJson([fn |-> x.fn, args |-> x.args, exp |-> x.exp, strict |-> x.strict,
                                  asis |-> TPAsIs(TPDevs),
                                  without |-> [d \in TPDevs |-> TPAsIs(TPDevs \ {d})]])>>)
    ELSE IF x.fn = "plural" /\ ~IsSpelledCall      \* (the as-is deviation of plural does not depend on how the number is written)
    THEN PrintT(<<"CASE", ToJson([fn |-> x.fn, args |-> x.args, exp |-> x.exp, strict |-> x.strict,
                                  asis |-> RS(IF NArgs >= 3 THEN Trim(A(3).s) ELSE <<>>),
                                  without |-> [d \in DevPlural |-> x.exp]])>>)
    ELSE PrintT(<<"CASE", ToJson([fn |-> x.fn, args |-> x.args, exp |-> x.exp, strict |-> x.strict])>>)
=============================================================================
