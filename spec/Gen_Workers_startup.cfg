SPECIFICATION GSpec
CONSTANTS
  Procs <- P2
  Dev <- DevAsIs
  Scenarios <- ScnNoCursor
  Focus = "startup"
INVARIANT GenInv
CHECK_DEADLOCK FALSE
