SPECIFICATION GSpec
CONSTANTS
  Procs <- P2
  Dev <- DevAsIs
  Scenarios <- ScnNoCursor
  Focus = "startup"
INVARIANT GenInv
INVARIANT TxnLockAgree
INVARIANT NoStaleSideFile
INVARIANT DoneMeansCommitted
CHECK_DEADLOCK FALSE
